package main

// Hash-consed SMT term DAG with light simplification and SMT-LIB printing.

import (
	"fmt"
	"sort"
	"strconv"
	"strings"
)

type Sort string

const (
	SInt    Sort = "Int"
	SBool   Sort = "Bool"
	SString Sort = "String"
	SVal    Sort = "Val"
	SF64    Sort = "F64"
)

func SeqOf(s Sort) Sort      { return Sort("(Seq " + string(s) + ")") }
func ArrOf(i, e Sort) Sort   { return Sort("(Array " + string(i) + " " + string(e) + ")") }
func (s Sort) IsSeq() bool   { return strings.HasPrefix(string(s), "(Seq ") }
func (s Sort) IsArr() bool   { return strings.HasPrefix(string(s), "(Array ") }
func (s Sort) SeqElem() Sort { return Sort(string(s)[5 : len(s)-1]) }

// ArrParts splits "(Array I E)" into I and E.
func (s Sort) ArrParts() (Sort, Sort) {
	body := string(s)[7 : len(s)-1]
	depth := 0
	for i := 0; i < len(body); i++ {
		switch body[i] {
		case '(':
			depth++
		case ')':
			depth--
		case ' ':
			if depth == 0 {
				return Sort(body[:i]), Sort(body[i+1:])
			}
		}
	}
	panic("bad array sort " + string(s))
}

type Term struct {
	id   int
	op   string // SMT operator / symbol / literal text
	args []*Term
	sort Sort
	kind int8 // 0 app, 1 var (declared const), 2 literal, 3 uf app (declared fun)
}

const (
	kApp = iota
	kVar
	kLit
	kUF
	kBound // bound variable of a quantifier
	kQuant // forall / exists: args = [bound var, body]
)

type TermStore struct {
	tab   map[string]*Term
	n     int
	fresh map[string]int
	// declared uninterpreted functions: name -> signature
	ufs map[string]*UFDecl
}

type UFDecl struct {
	name string
	args []Sort
	res  Sort
}

func NewStore() *TermStore {
	return &TermStore{tab: map[string]*Term{}, fresh: map[string]int{}, ufs: map[string]*UFDecl{}}
}

func (ts *TermStore) mk(kind int8, op string, sort Sort, args ...*Term) *Term {
	var sb strings.Builder
	sb.WriteByte(byte('0' + kind))
	sb.WriteString(op)
	sb.WriteByte('|')
	sb.WriteString(string(sort))
	for _, a := range args {
		sb.WriteByte(',')
		sb.WriteString(strconv.Itoa(a.id))
	}
	k := sb.String()
	if t, ok := ts.tab[k]; ok {
		return t
	}
	ts.n++
	t := &Term{id: ts.n, op: op, args: args, sort: sort, kind: kind}
	ts.tab[k] = t
	return t
}

func sanitize(s string) string {
	var sb strings.Builder
	for _, c := range s {
		switch {
		case c >= 'a' && c <= 'z', c >= 'A' && c <= 'Z', c >= '0' && c <= '9', c == '_', c == '.', c == '$', c == '!':
			sb.WriteRune(c)
		default:
			sb.WriteByte('_')
		}
	}
	return sb.String()
}

// Var returns a fresh symbolic constant with a readable name.
func (ts *TermStore) Fresh(hint string, sort Sort) *Term {
	hint = sanitize(hint)
	n := ts.fresh[hint]
	ts.fresh[hint] = n + 1
	name := hint
	if n > 0 {
		name = fmt.Sprintf("%s!%d", hint, n)
	}
	return ts.mk(kVar, name, sort)
}

// Bound creates a fresh bound variable for a quantifier.
func (ts *TermStore) Bound(hint string, sort Sort) *Term {
	n := ts.fresh["?"+hint]
	ts.fresh["?"+hint] = n + 1
	return ts.mk(kBound, fmt.Sprintf("?%s!%d", sanitize(hint), n), sort)
}

// BoundNamed: the bound variable with exactly this name (hash-consed): evaluating the same contract clause twice in
// states that agree on what it reads then yields the identical quantified term, not an alpha-variant of it.
func (ts *TermStore) BoundNamed(name string, sort Sort) *Term {
	return ts.mk(kBound, "?"+sanitize(name), sort)
}

func (ts *TermStore) Quant(q string, bv, body *Term) *Term {
	if body.IsTrue() && q == "forall" {
		return body
	}
	if body.IsFalse() && q == "exists" {
		return body
	}
	return ts.mk(kQuant, q, SBool, bv, body)
}

// mentions reports whether term t contains sub-term x.
func (ts *TermStore) mentions(t, x *Term) bool {
	seen := map[int]bool{}
	var walk func(t *Term) bool
	walk = func(t *Term) bool {
		if t == x {
			return true
		}
		if seen[t.id] {
			return false
		}
		seen[t.id] = true
		for _, a := range t.args {
			if walk(a) {
				return true
			}
		}
		return false
	}
	return walk(t)
}

// Named returns the (unique) symbolic constant with exactly this name.
func (ts *TermStore) Named(name string, sort Sort) *Term {
	return ts.mk(kVar, sanitize(name), sort)
}

func (ts *TermStore) Int(n int64) *Term {
	if n < 0 {
		return ts.mk(kLit, fmt.Sprintf("(- %d)", -n), SInt)
	}
	return ts.mk(kLit, strconv.FormatInt(n, 10), SInt)
}
func (ts *TermStore) BigInt(s string) *Term {
	if strings.HasPrefix(s, "-") {
		return ts.mk(kLit, "(- "+s[1:]+")", SInt)
	}
	return ts.mk(kLit, s, SInt)
}
func (ts *TermStore) Bool(b bool) *Term {
	if b {
		return ts.mk(kLit, "true", SBool)
	}
	return ts.mk(kLit, "false", SBool)
}

// Str makes an SMT-LIB string literal of Go byte string s (bytes as code points 0..255).
func (ts *TermStore) Str(s string) *Term {
	var sb strings.Builder
	sb.WriteByte('"')
	for i := 0; i < len(s); i++ {
		c := s[i]
		switch {
		case c == '"':
			sb.WriteString(`""`)
		case c == '\\':
			sb.WriteString(`\u{5c}`)
		case c >= 0x20 && c < 0x7f:
			sb.WriteByte(c)
		default:
			fmt.Fprintf(&sb, `\u{%x}`, c)
		}
	}
	sb.WriteByte('"')
	return ts.mk(kLit, sb.String(), SString)
}

func (t *Term) IsTrue() bool  { return t.kind == kLit && t.op == "true" }
func (t *Term) IsFalse() bool { return t.kind == kLit && t.op == "false" }
func (t *Term) IntLit() (int64, bool) {
	if t.kind != kLit || t.sort != SInt {
		return 0, false
	}
	s := t.op
	neg := false
	if strings.HasPrefix(s, "(- ") {
		neg = true
		s = s[3 : len(s)-1]
	}
	v, err := strconv.ParseInt(s, 10, 64)
	if err != nil {
		return 0, false
	}
	if neg {
		v = -v
	}
	return v, true
}

// StrLit returns the Go string of a string literal term.
func (t *Term) StrLit() (string, bool) {
	if t.kind != kLit || t.sort != SString {
		return "", false
	}
	return unquoteSMT(t.op), true
}

func unquoteSMT(lit string) string {
	s := lit[1 : len(lit)-1]
	var out []byte
	for i := 0; i < len(s); i++ {
		if s[i] == '"' && i+1 < len(s) && s[i+1] == '"' {
			out = append(out, '"')
			i++
			continue
		}
		if s[i] == '\\' && i+2 < len(s) && s[i+1] == 'u' && s[i+2] == '{' {
			j := strings.IndexByte(s[i:], '}')
			if j > 0 {
				v, err := strconv.ParseInt(s[i+3:i+j], 16, 32)
				if err == nil {
					if v < 256 {
						out = append(out, byte(v))
					} else {
						out = append(out, []byte(string(rune(v)))...)
					}
					i += j
					continue
				}
			}
		}
		out = append(out, s[i])
	}
	return string(out)
}

// ---- constructors with simplification ----

func (ts *TermStore) App(op string, sort Sort, args ...*Term) *Term {
	return ts.mk(kApp, op, sort, args...)
}

func (ts *TermStore) Not(a *Term) *Term {
	if a.IsTrue() {
		return ts.Bool(false)
	}
	if a.IsFalse() {
		return ts.Bool(true)
	}
	if a.kind == kApp && a.op == "not" {
		return a.args[0]
	}
	return ts.mk(kApp, "not", SBool, a)
}

func (ts *TermStore) And(as ...*Term) *Term {
	var out []*Term
	seen := map[int]bool{}
	for _, a := range as {
		if a.IsTrue() {
			continue
		}
		if a.IsFalse() {
			return a
		}
		if a.kind == kApp && a.op == "and" {
			for _, b := range a.args {
				if !seen[b.id] {
					seen[b.id] = true
					out = append(out, b)
				}
			}
			continue
		}
		if !seen[a.id] {
			seen[a.id] = true
			out = append(out, a)
		}
	}
	for _, a := range out {
		if a.kind == kApp && a.op == "not" && seen[a.args[0].id] {
			return ts.Bool(false)
		}
	}
	switch len(out) {
	case 0:
		return ts.Bool(true)
	case 1:
		return out[0]
	}
	return ts.mk(kApp, "and", SBool, out...)
}

func (ts *TermStore) Or(as ...*Term) *Term {
	var out []*Term
	seen := map[int]bool{}
	for _, a := range as {
		if a.IsFalse() {
			continue
		}
		if a.IsTrue() {
			return a
		}
		if a.kind == kApp && a.op == "or" {
			for _, b := range a.args {
				if !seen[b.id] {
					seen[b.id] = true
					out = append(out, b)
				}
			}
			continue
		}
		if !seen[a.id] {
			seen[a.id] = true
			out = append(out, a)
		}
	}
	for _, a := range out {
		if a.kind == kApp && a.op == "not" && seen[a.args[0].id] {
			return ts.Bool(true)
		}
	}
	switch len(out) {
	case 0:
		return ts.Bool(false)
	case 1:
		return out[0]
	}
	return ts.mk(kApp, "or", SBool, out...)
}

func (ts *TermStore) Implies(a, b *Term) *Term {
	if a.IsTrue() {
		return b
	}
	if a.IsFalse() || b.IsTrue() || a == b {
		return ts.Bool(true)
	}
	// conjuncts of b already among the conjuncts of a are dropped
	if a.kind == kApp && a.op == "and" {
		have := map[int]bool{}
		for _, x := range a.args {
			have[x.id] = true
		}
		if have[b.id] {
			return ts.Bool(true)
		}
		if b.kind == kApp && b.op == "and" {
			var rest []*Term
			for _, x := range b.args {
				if !have[x.id] {
					rest = append(rest, x)
				}
			}
			if len(rest) == 0 {
				return ts.Bool(true)
			}
			if len(rest) < len(b.args) {
				b = ts.And(rest...)
			}
		}
	}
	// (=> a (=> a c)) = (=> a c)
	if b.kind == kApp && b.op == "=>" && b.args[0] == a {
		return b
	}
	return ts.mk(kApp, "=>", SBool, a, b)
}

func (ts *TermStore) Ite(c, a, b *Term) *Term {
	if c.IsTrue() {
		return a
	}
	if c.IsFalse() {
		return b
	}
	if a == b {
		return a
	}
	if a.sort == SBool {
		if a.IsTrue() && b.IsFalse() {
			return c
		}
		if a.IsFalse() && b.IsTrue() {
			return ts.Not(c)
		}
		if a.IsFalse() {
			return ts.And(ts.Not(c), b)
		}
		if b.IsFalse() {
			return ts.And(c, a)
		}
		if a.IsTrue() {
			return ts.Or(c, b)
		}
		if b.IsTrue() {
			return ts.Or(ts.Not(c), a)
		}
	}
	// ite(c, a, ite(c, x, b)) = ite(c, a, b)
	if b.kind == kApp && b.op == "ite" && b.args[0] == c {
		return ts.Ite(c, a, b.args[2])
	}
	if a.kind == kApp && a.op == "ite" && a.args[0] == c {
		return ts.Ite(c, a.args[1], b)
	}
	return ts.mk(kApp, "ite", a.sort, c, a, b)
}

func (ts *TermStore) Eq(a, b *Term) *Term {
	if a == b {
		return ts.Bool(true)
	}
	if a.sort != b.sort {
		panic(fmt.Sprintf("Eq sort mismatch: %s : %s  vs  %s : %s", ts.Show(a), a.sort, ts.Show(b), b.sort))
	}
	if a.kind == kLit && b.kind == kLit {
		return ts.Bool(false) // distinct literals of the same sort (literals are canonical)
	}
	if a.sort == SBool {
		if a.IsTrue() {
			return b
		}
		if b.IsTrue() {
			return a
		}
		if a.IsFalse() {
			return ts.Not(b)
		}
		if b.IsFalse() {
			return ts.Not(a)
		}
	}
	if a.id > b.id {
		a, b = b, a
	}
	return ts.mk(kApp, "=", SBool, a, b)
}

func (ts *TermStore) arith(op string, a, b *Term) *Term {
	x, ok1 := a.IntLit()
	y, ok2 := b.IntLit()
	if ok1 && ok2 {
		switch op {
		case "+":
			return ts.Int(x + y)
		case "-":
			return ts.Int(x - y)
		case "*":
			return ts.Int(x * y)
		}
	}
	if op == "+" {
		if ok1 && x == 0 {
			return b
		}
		if ok2 && y == 0 {
			return a
		}
	}
	if op == "-" && ok2 && y == 0 {
		return a
	}
	// (x + c1) +/- c2  ==>  x + (c1 +/- c2)      (x - c1) +/- c2  ==>  x + (-c1 +/- c2)
	if ok2 && (op == "+" || op == "-") && a.kind == kApp && (a.op == "+" || a.op == "-") && len(a.args) == 2 {
		if c1, ok := a.args[1].IntLit(); ok {
			if a.op == "-" {
				c1 = -c1
			}
			c2 := y
			if op == "-" {
				c2 = -y
			}
			return ts.arith("+", a.args[0], ts.Int(c1+c2))
		}
	}
	if ok2 && op == "+" && y < 0 {
		return ts.mk(kApp, "-", SInt, a, ts.Int(-y))
	}
	if a == b && op == "-" {
		return ts.Int(0)
	}
	return ts.mk(kApp, op, SInt, a, b)
}
func (ts *TermStore) Add(a, b *Term) *Term { return ts.arith("+", a, b) }
func (ts *TermStore) Sub(a, b *Term) *Term { return ts.arith("-", a, b) }
func (ts *TermStore) Mul(a, b *Term) *Term { return ts.arith("*", a, b) }

func (ts *TermStore) cmp(op string, a, b *Term) *Term {
	x, ok1 := a.IntLit()
	y, ok2 := b.IntLit()
	if ok1 && ok2 {
		switch op {
		case "<":
			return ts.Bool(x < y)
		case "<=":
			return ts.Bool(x <= y)
		case ">":
			return ts.Bool(x > y)
		case ">=":
			return ts.Bool(x >= y)
		}
	}
	return ts.mk(kApp, op, SBool, a, b)
}
func (ts *TermStore) Lt(a, b *Term) *Term { return ts.cmp("<", a, b) }
func (ts *TermStore) Le(a, b *Term) *Term { return ts.cmp("<=", a, b) }
func (ts *TermStore) Gt(a, b *Term) *Term { return ts.cmp(">", a, b) }
func (ts *TermStore) Ge(a, b *Term) *Term { return ts.cmp(">=", a, b) }

func (ts *TermStore) Select(arr, idx *Term) *Term {
	_, e := arr.sort.ArrParts()
	// select(store(a,i,v), j): syntactic match / distinct literals
	for arr.kind == kApp && arr.op == "store" {
		if arr.args[1] == idx {
			return arr.args[2]
		}
		if arr.args[1].kind == kLit && idx.kind == kLit {
			arr = arr.args[0]
			continue
		}
		break
	}
	if arr.kind == kApp && strings.HasPrefix(arr.op, "(as const") {
		return arr.args[0]
	}
	return ts.mk(kApp, "select", e, arr, idx)
}
func (ts *TermStore) Store(arr, idx, v *Term) *Term {
	if arr.kind == kApp && arr.op == "store" && arr.args[1] == idx {
		arr = arr.args[0]
	}
	return ts.mk(kApp, "store", arr.sort, arr, idx, v)
}
func (ts *TermStore) ConstArr(sort Sort, v *Term) *Term {
	return ts.mk(kApp, "(as const "+string(sort)+")", sort, v)
}

// strings / sequences share the seq operations syntax in SMT-LIB (str.* for String, seq.* for Seq)
func (ts *TermStore) Len(s *Term) *Term {
	if s.kind == kApp && s.op == "ite" {
		return ts.Ite(s.args[0], ts.Len(s.args[1]), ts.Len(s.args[2]))
	}
	if s.kind == kApp && (s.op == "seq.++" || s.op == "str.++") {
		return ts.Add(ts.Len(s.args[0]), ts.Len(s.args[1]))
	}
	if s.sort == SString {
		if l, ok := s.StrLit(); ok {
			return ts.Int(int64(len(l)))
		}
		return ts.mk(kApp, "str.len", SInt, s)
	}
	if s.kind == kApp && s.op == "seq.unit" {
		return ts.Int(1)
	}
	if s.kind == kApp && strings.HasPrefix(s.op, "(as seq.empty") {
		return ts.Int(0)
	}
	return ts.mk(kApp, "seq.len", SInt, s)
}
func (ts *TermStore) Concat(a, b *Term) *Term {
	if a.sort == SString {
		x, ok1 := a.StrLit()
		y, ok2 := b.StrLit()
		if ok1 && ok2 {
			return ts.Str(x + y)
		}
		if ok1 && x == "" {
			return b
		}
		if ok2 && y == "" {
			return a
		}
		return ts.mk(kApp, "str.++", SString, a, b)
	}
	if a.kind == kApp && strings.HasPrefix(a.op, "(as seq.empty") {
		return b
	}
	if b.kind == kApp && strings.HasPrefix(b.op, "(as seq.empty") {
		return a
	}
	return ts.mk(kApp, "seq.++", a.sort, a, b)
}
func (ts *TermStore) EmptySeq(sort Sort) *Term {
	if sort == SString {
		return ts.Str("")
	}
	return ts.mk(kApp, "(as seq.empty "+string(sort)+")", sort)
}
func (ts *TermStore) Unit(e *Term) *Term { return ts.mk(kApp, "seq.unit", SeqOf(e.sort), e) }

// Extract is s[off : off+n]
func (ts *TermStore) Extract(s, off, n *Term) *Term {
	if nv, ok := n.IntLit(); ok && nv == 0 {
		return ts.EmptySeq(s.sort)
	}
	if ov, ok := off.IntLit(); ok && ov == 0 && n == ts.Len(s) {
		return s
	}
	if s.sort != SString {
		// explicit sequences (concatenations of units) with literal bounds are sliced concretely
		if ov, ok1 := off.IntLit(); ok1 {
			if nv, ok2 := n.IntLit(); ok2 {
				if els, ok := ts.explode(s); ok && ov >= 0 && nv >= 0 && ov+nv <= int64(len(els)) {
					r := ts.EmptySeq(s.sort)
					for _, e := range els[ov : ov+nv] {
						r = ts.Concat(r, ts.Unit(e))
					}
					return r
				}
			}
		}
	}
	if s.sort == SString {
		if l, ok := s.StrLit(); ok {
			o, ok1 := off.IntLit()
			c, ok2 := n.IntLit()
			if ok1 && ok2 && o >= 0 && c >= 0 && o+c <= int64(len(l)) {
				return ts.Str(l[o : o+c])
			}
		}
		return ts.mk(kApp, "str.substr", SString, s, off, n)
	}
	return ts.mk(kApp, "seq.extract", s.sort, s, off, n)
}

// Nth: element i; for String yields the Int code of the byte.
func (ts *TermStore) Nth(s, i *Term) *Term {
	if s.kind == kApp && s.op == "ite" {
		return ts.Ite(s.args[0], ts.Nth(s.args[1], i), ts.Nth(s.args[2], i))
	}
	if s.sort == SString {
		return ts.mk(kApp, "str.to_code", SInt, ts.mk(kApp, "str.at", SString, s, i))
	}
	if s.kind == kApp && s.op == "seq.unit" {
		if v, ok := i.IntLit(); ok && v == 0 {
			return s.args[0]
		}
	}
	if v, ok := i.IntLit(); ok && v >= 0 {
		if els, ok := ts.explode(s); ok && v < int64(len(els)) {
			return els[v]
		}
	}
	return ts.mk(kApp, "seq.nth", s.sort.SeqElem(), s, i)
}

// UF application; declares on first use.
func (ts *TermStore) UF(name string, res Sort, args ...*Term) *Term {
	name = sanitize(name)
	if d, ok := ts.ufs[name]; !ok {
		d = &UFDecl{name: name, res: res}
		for _, a := range args {
			d.args = append(d.args, a.sort)
		}
		ts.ufs[name] = d
	} else {
		if len(d.args) != len(args) || d.res != res {
			panic("UF redeclared with different signature: " + name)
		}
		for i, a := range args {
			if d.args[i] != a.sort {
				panic(fmt.Sprintf("UF %s arg %d sort %s vs %s", name, i, d.args[i], a.sort))
			}
		}
	}
	if len(args) == 0 {
		return ts.mk(kVar, name, res)
	}
	return ts.mk(kUF, name, res, args...)
}

// ---- printing ----

// Show renders a term fully inlined (for diagnostics; may be large).
func (ts *TermStore) Show(t *Term) string {
	var sb strings.Builder
	ts.show(&sb, t, 0)
	return sb.String()
}
func (ts *TermStore) show(sb *strings.Builder, t *Term, depth int) {
	if t.kind == kQuant {
		fmt.Fprintf(sb, "(%s ((%s %s)) ", t.op, t.args[0].op, t.args[0].sort)
		ts.show(sb, t.args[1], depth+1)
		sb.WriteByte(')')
		return
	}
	if len(t.args) == 0 {
		if t.kind == kApp {
			sb.WriteString(t.op)
			return
		}
		sb.WriteString(t.op)
		return
	}
	if depth > 40 {
		sb.WriteString("...")
		return
	}
	sb.WriteByte('(')
	sb.WriteString(t.op)
	for _, a := range t.args {
		sb.WriteByte(' ')
		ts.show(sb, a, depth+1)
	}
	sb.WriteByte(')')
}

// Script builds an SMT-LIB script asserting all of hyps and the negation of goal.
// Shared sub-terms are named with define-fun to keep the text linear in the DAG size.
type Script struct {
	Text    string
	Symbols []string // declared constants (for get-value)
}

func (ts *TermStore) Script(prelude string, datatypes []string, hyps []*Term, goal *Term, getValues []*Term) Script {
	return ts.ScriptOpt(prelude, datatypes, hyps, goal, getValues, false)
}

// ScriptOpt: dropNthPatterns leaves quantifiers whose only triggers mention seq.nth without patterns.
func (ts *TermStore) ScriptOpt(prelude string, datatypes []string, hyps []*Term, goal *Term, getValues []*Term, dropNthPatterns bool) Script {
	// collect cone
	refs := map[int]int{}
	var order []*Term
	var visit func(t *Term)
	visit = func(t *Term) {
		refs[t.id]++
		if refs[t.id] > 1 {
			return
		}
		for _, a := range t.args {
			visit(a)
		}
		order = append(order, t)
	}
	roots := append([]*Term{}, hyps...)
	if goal != nil {
		roots = append(roots, goal)
	}
	for _, r := range roots {
		visit(r)
	}
	for _, g := range getValues {
		visit(g)
	}
	// terms with a free occurrence of a bound variable must be printed inside their binder
	hasBound := map[int]bool{}
	for _, t := range order {
		if t.kind == kBound {
			hasBound[t.id] = true
			continue
		}
		for _, a := range t.args {
			if hasBound[a.id] {
				hasBound[t.id] = true
			}
		}
		if t.kind == kQuant {
			// closed if no other bound variable occurs free in the body
			hasBound[t.id] = ts.freeBound(t, map[int]bool{})
		}
	}
	var sb strings.Builder
	sb.WriteString(prelude)
	for _, d := range datatypes {
		sb.WriteString(d)
		sb.WriteByte('\n')
	}
	// declarations
	var vars []*Term
	ufUsed := map[string]bool{}
	for _, t := range order {
		if t.kind == kVar {
			vars = append(vars, t)
		} else if t.kind == kUF {
			ufUsed[t.op] = true
		}
	}
	sort.Slice(vars, func(i, j int) bool { return vars[i].op < vars[j].op })
	var syms []string
	for _, v := range vars {
		fmt.Fprintf(&sb, "(declare-const %s %s)\n", v.op, v.sort)
		syms = append(syms, v.op)
	}
	var ufn []string
	for n := range ufUsed {
		ufn = append(ufn, n)
	}
	sort.Strings(ufn)
	for _, n := range ufn {
		d := ts.ufs[n]
		var as []string
		for _, a := range d.args {
			as = append(as, string(a))
		}
		fmt.Fprintf(&sb, "(declare-fun %s (%s) %s)\n", d.name, strings.Join(as, " "), d.res)
	}
	// definitions for shared nodes
	names := map[int]string{}
	var pr func(t *Term) string
	pr = func(t *Term) string {
		if n, ok := names[t.id]; ok {
			return n
		}
		if len(t.args) == 0 {
			return t.op
		}
		if t.kind == kQuant {
			pats := ts.patterns(t.args[0], t.args[1], dropNthPatterns)
			if len(pats) == 0 {
				return fmt.Sprintf("(%s ((%s %s)) %s)", t.op, t.args[0].op, t.args[0].sort, pr(t.args[1]))
			}
			var ps []string
			for _, p := range pats {
				ps = append(ps, "("+pr(p)+")")
			}
			return fmt.Sprintf("(%s ((%s %s)) (! %s :pattern %s))", t.op, t.args[0].op, t.args[0].sort, pr(t.args[1]), strings.Join(ps, " :pattern "))
		}
		var b strings.Builder
		b.WriteByte('(')
		b.WriteString(t.op)
		for _, a := range t.args {
			b.WriteByte(' ')
			b.WriteString(pr(a))
		}
		b.WriteByte(')')
		return b.String()
	}
	for _, t := range order {
		if len(t.args) > 0 && refs[t.id] > 1 && !hasBound[t.id] {
			body := pr(t)
			n := fmt.Sprintf("t!%d", t.id)
			fmt.Fprintf(&sb, "(define-fun %s () %s %s)\n", n, t.sort, body)
			names[t.id] = n
		}
	}
	for _, h := range hyps {
		fmt.Fprintf(&sb, "(assert %s)\n", pr(h))
	}
	if goal != nil {
		fmt.Fprintf(&sb, "(assert (not %s))\n", pr(goal))
	}
	sb.WriteString("(check-sat)\n")
	if len(getValues) > 0 {
		sb.WriteString("(get-value (")
		for i, g := range getValues {
			if i > 0 {
				sb.WriteByte(' ')
			}
			sb.WriteString(pr(g))
		}
		sb.WriteString("))\n")
	}
	return Script{Text: sb.String(), Symbols: syms}
}

// freeBound: does t contain a bound variable that is not bound inside t?
func (ts *TermStore) freeBound(t *Term, bound map[int]bool) bool {
	memo := map[int]bool{}
	var walk func(t *Term, bound map[int]bool) bool
	walk = func(t *Term, bound map[int]bool) bool {
		if t.kind == kBound {
			return !bound[t.id]
		}
		if t.kind == kQuant {
			nb := map[int]bool{t.args[0].id: true}
			for k := range bound {
				nb[k] = true
			}
			return walk(t.args[1], nb)
		}
		if len(bound) == 0 {
			if v, ok := memo[t.id]; ok {
				return v
			}
		}
		r := false
		for _, a := range t.args {
			if walk(a, bound) {
				r = true
				break
			}
		}
		if len(bound) == 0 {
			memo[t.id] = r
		}
		return r
	}
	return walk(t, bound)
}

// patterns: instantiation triggers for a quantifier: applications (seq.nth / select / uninterpreted) that have
// the bound variable as a direct argument.
func (ts *TermStore) patterns(bv, body *Term, dropNthPatterns bool) []*Term {
	var out []*Term
	seen := map[int]bool{}
	var walk func(t *Term)
	walk = func(t *Term) {
		if seen[t.id] || t.kind == kQuant {
			return
		}
		seen[t.id] = true
		direct := false
		for _, a := range t.args {
			if a == bv {
				direct = true
			}
		}
		if direct && (t.kind == kUF || (t.kind == kApp && (t.op == "seq.nth" || t.op == "select" || t.op == "str.at"))) && patternOK(t) {
			if dropNthPatterns && ts.mentionsOp(t, "seq.nth") {
				// z3 rewrites seq.nth internally, so a pattern containing it never matches (and switches off
				// model-based instantiation for the quantifier): leave such a quantifier without patterns
				return
			}
			out = append(out, t)
			return
		}
		for _, a := range t.args {
			walk(a)
		}
	}
	walk(body)
	if len(out) > 3 {
		out = out[:3]
	}
	return out
}

func (ts *TermStore) mentionsOp(t *Term, op string) bool {
	seen := map[int]bool{}
	var walk func(t *Term) bool
	walk = func(t *Term) bool {
		if seen[t.id] {
			return false
		}
		seen[t.id] = true
		if t.kind == kApp && t.op == op {
			return true
		}
		for _, a := range t.args {
			if walk(a) {
				return true
			}
		}
		return false
	}
	return walk(t)
}

// Subst replaces every occurrence of from by to.
func (ts *TermStore) Subst(t, from, to *Term) *Term {
	memo := map[int]*Term{}
	var walk func(t *Term) *Term
	walk = func(t *Term) *Term {
		if t == from {
			return to
		}
		if len(t.args) == 0 {
			return t
		}
		if r, ok := memo[t.id]; ok {
			return r
		}
		changed := false
		na := make([]*Term, len(t.args))
		for i, a := range t.args {
			na[i] = walk(a)
			if na[i] != a {
				changed = true
			}
		}
		r := t
		if changed {
			r = ts.mk(t.kind, t.op, t.sort, na...)
		}
		memo[t.id] = r
		return r
	}
	return walk(t)
}

// Skolemize replaces universally quantified variables in positive positions of a goal by fresh constants.
func (ts *TermStore) Skolemize(g *Term) *Term {
	hq := map[int]bool{}
	var hasQ func(t *Term) bool
	hasQ = func(t *Term) bool {
		if v, ok := hq[t.id]; ok {
			return v
		}
		v := t.kind == kQuant
		if !v && t.sort == SBool {
			for _, a := range t.args {
				if a.sort == SBool && hasQ(a) {
					v = true
					break
				}
			}
		}
		hq[t.id] = v
		return v
	}
	return ts.skolemM(g, true, hasQ, map[[2]int]*Term{})
}

func (ts *TermStore) skolemM(g *Term, pos bool, hasQ func(*Term) bool, memo map[[2]int]*Term) *Term {
	if !hasQ(g) {
		return g
	}
	k := [2]int{g.id, 0}
	if pos {
		k[1] = 1
	}
	if r, ok := memo[k]; ok {
		return r
	}
	r := ts.skolem1(g, pos, func(t *Term, p bool) *Term { return ts.skolemM(t, p, hasQ, memo) })
	memo[k] = r
	return r
}

// skolem replaces by fresh constants the quantifiers of a goal that are universal in effect: forall at positive
// polarity, exists at negative polarity (antecedents, under not). Only and / or / not / => / the branches of a
// boolean ite are descended into; validity of the goal is preserved.
func (ts *TermStore) skolem1(g *Term, pos bool, rec func(*Term, bool) *Term) *Term {
	switch {
	case g.kind == kQuant && ((g.op == "forall" && pos) || (g.op == "exists" && !pos)):
		sk := ts.Fresh("sk!"+strings.Trim(g.args[0].op, "?"), g.args[0].sort)
		return rec(ts.Subst(g.args[1], g.args[0], sk), pos)
	case g.kind == kApp && g.op == "not" && len(g.args) == 1:
		in := rec(g.args[0], !pos)
		if in == g.args[0] {
			return g
		}
		return ts.Not(in)
	case g.kind == kApp && g.op == "=>" && len(g.args) == 2:
		a, b := rec(g.args[0], !pos), rec(g.args[1], pos)
		if a == g.args[0] && b == g.args[1] {
			return g
		}
		return ts.mk(kApp, "=>", SBool, a, b)
	case g.kind == kApp && (g.op == "and" || g.op == "or"):
		na := make([]*Term, len(g.args))
		same := true
		for i, a := range g.args {
			na[i] = rec(a, pos)
			same = same && na[i] == a
		}
		if same {
			return g
		}
		return ts.mk(kApp, g.op, SBool, na...)
	case g.kind == kApp && g.op == "ite" && g.sort == SBool:
		a, b := rec(g.args[1], pos), rec(g.args[2], pos)
		if a == g.args[1] && b == g.args[2] {
			return g
		}
		return ts.mk(kApp, "ite", SBool, g.args[0], a, b)
	}
	return g
}

// patternOK: SMT solvers only accept patterns built from function applications (no connectives / ite).
func patternOK(t *Term) bool {
	seen := map[int]bool{}
	var walk func(t *Term) bool
	walk = func(t *Term) bool {
		if seen[t.id] {
			return true
		}
		seen[t.id] = true
		if t.kind == kQuant {
			return false
		}
		if t.kind == kApp {
			switch t.op {
			case "ite", "not", "and", "or", "=>", "=", "<", "<=", ">", ">=":
				return false
			}
		}
		for _, a := range t.args {
			if !walk(a) {
				return false
			}
		}
		return true
	}
	return walk(t)
}

// FreeBoundVars lists the bound variables occurring free in t.
func (ts *TermStore) FreeBoundVars(t *Term) []*Term {
	var out []*Term
	seenV := map[int]bool{}
	var walk func(t *Term, bound map[int]bool, seen map[int]bool)
	walk = func(t *Term, bound map[int]bool, seen map[int]bool) {
		if t.kind == kBound {
			if !bound[t.id] && !seenV[t.id] {
				seenV[t.id] = true
				out = append(out, t)
			}
			return
		}
		if seen[t.id] {
			return
		}
		seen[t.id] = true
		if t.kind == kQuant {
			nb := map[int]bool{t.args[0].id: true}
			for k := range bound {
				nb[k] = true
			}
			walk(t.args[1], nb, map[int]bool{})
			return
		}
		for _, a := range t.args {
			walk(a, bound, seen)
		}
	}
	walk(t, map[int]bool{}, map[int]bool{})
	return out
}

// explode: the elements of an explicit sequence (a concatenation of seq.unit terms), if s is one.
func (ts *TermStore) explode(s *Term) ([]*Term, bool) {
	if s.kind != kApp {
		return nil, false
	}
	switch {
	case s.op == "seq.unit":
		return []*Term{s.args[0]}, true
	case strings.HasPrefix(s.op, "(as seq.empty"):
		return []*Term{}, true
	case s.op == "seq.++":
		var out []*Term
		for _, a := range s.args {
			e, ok := ts.explode(a)
			if !ok {
				return nil, false
			}
			out = append(out, e...)
		}
		return out, true
	}
	return nil, false
}

// builtFrom: every symbol (constant / variable leaf) of t was created before term id maxID, i.e. t is a
// function of values that existed at that point.
func (ts *TermStore) builtFrom(t *Term, maxID int) bool {
	memo := map[int]bool{}
	var walk func(t *Term) bool
	walk = func(t *Term) bool {
		if t.id <= maxID {
			return true
		}
		if v, ok := memo[t.id]; ok {
			return v
		}
		r := true
		if len(t.args) == 0 {
			r = t.kind == kLit || (t.kind == kApp && t.id <= maxID) || (t.kind == kApp && len(t.args) == 0 && t.kind != kVar)
			if t.kind == kVar || t.kind == kBound {
				r = false
			}
		}
		for _, a := range t.args {
			if !walk(a) {
				r = false
				break
			}
		}
		memo[t.id] = r
		return r
	}
	return walk(t)
}
