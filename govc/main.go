package main

import (
	"fmt"
	"os"
	"time"

	"golang.org/x/tools/go/packages"
	"golang.org/x/tools/go/ssa"
	"golang.org/x/tools/go/ssa/ssautil"
)

func main() {
	t0 := time.Now()
	cfg := &packages.Config{
		Mode:       packages.NeedName | packages.NeedFiles | packages.NeedCompiledGoFiles | packages.NeedImports | packages.NeedDeps | packages.NeedTypes | packages.NeedSyntax | packages.NeedTypesInfo | packages.NeedTypesSizes,
		Dir:        "/repo",
		BuildFlags: []string{"-tags=verif"},
		Env:        append(os.Environ(), "GOFLAGS=-mod=mod", "GOPROXY=off", "GOSUMDB=off", "GOTOOLCHAIN=local"),
	}
	pkgs, err := packages.Load(cfg, ".", "./x2j-wrapper", "./j2x", "./x2j")
	if err != nil {
		panic(err)
	}
	fmt.Println("load", time.Since(t0), len(pkgs))
	prog, spkgs := ssautil.Packages(pkgs, ssa.NaiveForm)
	for _, p := range spkgs {
		if p != nil {
			p.Build()
		}
	}
	fmt.Println("ssa", time.Since(t0))
	n := 0
	for fn := range ssautil.AllFunctions(prog) {
		if fn.Pkg != nil && fn.Blocks != nil {
			n++
		}
	}
	fmt.Println("funcs", n)
}
