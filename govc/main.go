package main

import (
	"encoding/json"
	"flag"
	"fmt"
	"os"
	"path/filepath"
	"runtime"
	"sort"
	"strconv"
	"strings"
	"sync"
	"time"

	"golang.org/x/tools/go/ssa"
)

type KnownFinding struct {
	Property   string `json:"property"`
	Status     string `json:"status"` // open | fixed
	Obligation string `json:"obligation"` // func:kind:text  (ordinal-free key)
	What       string `json:"what"`
	Commit     string `json:"commit,omitempty"`
	Witness    string `json:"witness,omitempty"`
}

var propPackages = map[string][]string{
	"C20": {"./j2x", "./x2j", "./x2j-wrapper"},
}

func main() {
	if len(os.Args) < 2 {
		fmt.Fprintln(os.Stderr, "usage: govc check <property> [flags] | govc list | govc ghost [pkg]")
		os.Exit(2)
	}
	switch os.Args[1] {
	case "check":
		os.Exit(cmdCheck(os.Args[2:]))
	case "replay":
		cmdReplay(os.Args[2:])
	case "ghost":
		pat := "."
		if len(os.Args) > 2 {
			pat = os.Args[2]
		}
		ld, err := Load("/repo", pat)
		if err != nil {
			fmt.Fprintln(os.Stderr, err)
			os.Exit(2)
		}
		fmt.Println(ld.GhostSrc)
		for _, e := range ld.Errors {
			fmt.Fprintln(os.Stderr, "ERROR:", e)
		}
	default:
		fmt.Fprintln(os.Stderr, "unknown command", os.Args[1])
		os.Exit(2)
	}
}

type funcReport struct {
	Name        string   `json:"name"`
	Obligations int      `json:"obligations"`
	Discharged  int      `json:"discharged"`
	Trivial     int      `json:"trivial"`
	HasContract bool     `json:"has_contract"`
	Clauses     int      `json:"clauses"`
	Error       string   `json:"error,omitempty"`
	Kinds       map[string]int `json:"kinds"`
}

func cmdCheck(argv []string) int {
	fs := flag.NewFlagSet("check", flag.ExitOnError)
	tier := fs.String("tier", "quick", "quick|thorough")
	repo := fs.String("repo", "/repo", "repository directory")
	verifDir := fs.String("verif", "/verif", "verif directory")
	only := fs.String("func", "", "only this function (debug)")
	keep := fs.Bool("keep", false, "keep scratch SMT files")
	verbose := fs.Bool("v", false, "verbose")
	timeoutFlag := fs.Int("timeout", 0, "per-obligation solver timeout (s)")
	if len(argv) < 1 {
		fmt.Fprintln(os.Stderr, "usage: govc check <property>")
		return 2
	}
	prop := argv[0]
	fs.Parse(argv[1:])
	if t := os.Getenv("VERIF_TIER"); t == "quick" || t == "thorough" {
		*tier = t
	}
	seed := 0
	if s := os.Getenv("VERIF_SEED"); s != "" {
		seed, _ = strconv.Atoi(s)
	}
	timeoutS := 10
	// every tier: an unsat answer is re-checked by the other solver family (z3 5.1.0 was caught twice answering unsat on
	// satisfiable problems - once over nested sequences, once over strings and sequences of strings); a contradicting
	// "sat" fails the obligation
	crossCheck = os.Getenv("GOVC_NOCROSS") == ""
	if *tier == "thorough" {
		timeoutS = 60
	}
	if *timeoutFlag > 0 {
		timeoutS = *timeoutFlag
	}
	t0 := time.Now()
	// stale replay files of earlier runs of this property
	if old, _ := filepath.Glob(filepath.Join(*verifDir, "replay", prop+"-*")); len(old) > 0 {
		for _, f := range old {
			os.Remove(f)
		}
	}
	scratch, err := os.MkdirTemp("", "govc-"+prop+"-")
	if err != nil {
		fmt.Fprintln(os.Stderr, err)
		return 2
	}
	if !*keep {
		defer os.RemoveAll(scratch)
	} else {
		fmt.Fprintln(os.Stderr, "scratch:", scratch)
	}

	pats := []string{"."}
	if p, ok := propPackages[prop]; ok {
		pats = p
	}
	var allObls []*Obligation
	var reports []*funcReport
	trusted := map[string]bool{}
	var loadErrors []string
	var engines []*Engine
	nContracted := 0
	for _, pat := range pats {
		ld, err := Load(*repo, pat)
		if err != nil {
			loadErrors = append(loadErrors, fmt.Sprintf("%s: %v", pat, err))
			continue
		}
		for _, e := range ld.Errors {
			loadErrors = append(loadErrors, pat+": "+e)
		}
		eng := NewEngine(ld)
		eng.verbose = *verbose
		engines = append(engines, eng)
		// functions carrying this property
		var names []string
		for _, n := range ld.Contracts.Order {
			fc := ld.Contracts.Funcs[n]
			for _, p := range fc.Props {
				if p == prop {
					names = append(names, n)
					break
				}
			}
		}
		helperSeen := map[*ssa.Function]bool{}
		for _, n := range names {
			if *only != "" && n != *only {
				continue
			}
			fc := ld.Contracts.Funcs[n]
			rep := &funcReport{Name: pat + ":" + n, HasContract: true, Clauses: len(fc.Requires) + len(fc.Ensures), Kinds: map[string]int{}}
			reports = append(reports, rep)
			if fc.Obj == nil && !fc.IsInit {
				continue
			}
			if fc.Trusted {
				trusted["trusted contract (assumed, body not verified): "+n] = true
				continue
			}
			nContracted++
			var fn *ssa.Function
			if fc.IsInit {
				fn = ld.SSA.Func("init")
			} else {
				fn = ld.Prog.FuncValue(fc.Obj)
			}
			if fn == nil {
				rep.Error = "no SSA function"
				loadErrors = append(loadErrors, "no SSA function for "+n)
				continue
			}
			if fc.InlineOnly {
				if len(fc.Requires)+len(fc.Ensures)+len(fc.Modifies) > 0 {
					loadErrors = append(loadErrors, "inline-only function "+n+" cannot carry requires/ensures/modifies")
				}
				dctx := &FnCtx{eng: eng, top: fn, fc: fc}
				allObls = append(allObls, eng.ownObligations(fn, fc, dctx)...)
				allObls = append(allObls, eng.lendObligations(fn, fc, dctx)...)
				continue
			}
			ctx, err := eng.VerifyFunction(fn)
			if err != nil {
				rep.Error = err.Error()
				// fail closed: an undecidable function is reported
				o := &Obligation{Name: fmt.Sprintf("%s:subset:%s", n, err.Error()), Kind: "subset", Func: n, Status: "error", Output: err.Error(), Props: fc.Props, Ctx: ctx}
				allObls = append(allObls, o)
				continue
			}
			for t := range ctx.trusted {
				trusted[t] = true
			}
			// vacuity: entry facts must be satisfiable
			allObls = append(allObls, ctx.obls...)
			allObls = append(allObls, ctx.coverObligations()...)
			allObls = append(allObls, eng.ownObligations(fn, fc, ctx)...)
			allObls = append(allObls, eng.dependsObligations(fn, fc, ctx)...)
			allObls = append(allObls, eng.lendObligations(fn, fc, ctx)...)
			if fc.OwnsLists {
				trusted["ownership assumed (owns-lists): "+n+" appends to lists held in the maps it is building; assumed exclusively owned"] = true
			}
			if fc.FreshResult {
				allObls = append(allObls, eng.freshResultObligations(fn, fc, ctx)...)
			}
			// helpers without a contract are verified inlined (symbolic obligations); the data-flow obligations
			// (ownership of backing arrays, lending of Buffer.Bytes) are generated for their own bodies here
			var visit func(f *ssa.Function)
			visit = func(f *ssa.Function) {
				for _, b := range f.Blocks {
					for _, in := range b.Instrs {
						cl, ok := in.(*ssa.Call)
						if !ok {
							continue
						}
						cal := cl.Call.StaticCallee()
						if cal == nil || cal.Pkg != ld.SSA || cal.Blocks == nil || eng.isGhostFn(cal) || ld.byFn[cal] != nil || helperSeen[cal] {
							continue
						}
						helperSeen[cal] = true
						hfc := &FuncContract{Name: cal.Name(), Props: []string{prop}}
						dctx := &FnCtx{eng: eng, top: cal, fc: hfc}
						allObls = append(allObls, eng.ownObligations(cal, hfc, dctx)...)
						allObls = append(allObls, eng.lendObligations(cal, hfc, dctx)...)
						visit(cal)
					}
				}
			}
			visit(fn)
		}
		// specification functions whose (inductively proved) contracts were used as facts must be verified as well
		if *only == "" {
			verified := map[string]bool{}
			for _, n := range names {
				verified[n] = true
			}
			for changed := true; changed; {
				changed = false
				var pend []*ssa.Function
				for fn := range eng.usedSpecContracts {
					if !verified[fn.Name()] {
						pend = append(pend, fn)
					}
				}
				sort.Slice(pend, func(i, j int) bool { return pend[i].Name() < pend[j].Name() })
				for _, fn := range pend {
					verified[fn.Name()] = true
					changed = true
					fc := ld.byFn[fn]
					rep := &funcReport{Name: pat + ":" + fn.Name() + " (spec function contract, by induction)", HasContract: true, Clauses: len(fc.Requires) + len(fc.Ensures), Kinds: map[string]int{}}
					reports = append(reports, rep)
					nContracted++
					ctx, err := eng.VerifyFunction(fn)
					if err != nil {
						rep.Error = err.Error()
						allObls = append(allObls, &Obligation{Name: fmt.Sprintf("%s:subset:%s", fn.Name(), err.Error()), Kind: "subset", Func: fn.Name(), Status: "error", Output: err.Error(), Ctx: ctx})
						continue
					}
					for t := range ctx.trusted {
						trusted[t] = true
					}
					allObls = append(allObls, ctx.obls...)
				}
			}
		}
		for t := range eng.trusted {
			trusted[t] = true
		}
	}
	if *verbose {
		fmt.Printf("govc: VC generation done at %.1fs (%d obligations)\n", time.Since(t0).Seconds(), len(allObls))
	}
	// discharge in parallel
	par := runtime.NumCPU()
	if par < 1 {
		par = 1
	}
	var wg sync.WaitGroup
	sem := make(chan struct{}, par)
	for i, o := range allObls {
		if o.Status == "trivial" || o.Status == "error" || o.Solver == "ssa-dataflow" {
			if o.Status == "trivial" {
				o.Solver = "simplifier"
			}
			continue
		}
		wg.Add(1)
		sem <- struct{}{}
		go func(i int, o *Obligation) {
			defer wg.Done()
			defer func() { <-sem }()
			o.Ctx.eng.Discharge(o, scratch, i, timeoutS, seed)
		}(i, o)
	}
	wg.Wait()

	// known findings
	known := loadKnown(filepath.Join(*verifDir, "known_findings.json"))
	// classify
	var failed []*Obligation
	byFunc := map[string]*funcReport{}
	for _, r := range reports {
		byFunc[r.Name[strings.Index(r.Name, ":")+1:]] = r
	}
	nObl, nDis, nTriv := 0, 0, 0
	bySolver := map[string]int{}
	var solverTime, maxTime float64
	kinds := map[string]int{}
	covers := map[string]int{}
	retCov := map[string][]*Obligation{}
	basicTwin := map[string]*Obligation{}
	for _, o := range allObls {
		if o.Kind == "cover" && strings.HasSuffix(o.Name, " (basic)") {
			basicTwin[strings.TrimSuffix(o.Name, " (basic)")] = o
		}
	}
	for _, o := range allObls {
		if o.Kind == "cover" {
			// expectation inverted: unsat = vacuous
			covers[o.Status]++
			if strings.HasSuffix(o.Name, ":cover:entry") {
				if o.Status == "unsat" {
					o.Output = "VACUOUS: assumptions at function entry are contradictory\n" + o.Output
					failed = append(failed, o)
				}
			} else if strings.Contains(o.Name, ":cover:back ") {
				if o.Status == "unsat" && !strings.HasSuffix(o.Name, " (basic)") {
					// dead in the model of the code and the libraries alone (e.g. the no-case-matched edge of an
					// exhaustive type switch)? then nothing was assumed to make it unreachable
					if b := basicTwin[o.Name]; b != nil && b.Status == "unsat" {
						continue
					}
					o.Output = "VACUOUS: the path to this loop back edge is unreachable under the accumulated assumptions (contradictory invariant, lemma or model); the invariant step was proved for nothing\n" + o.Output
					failed = append(failed, o)
				}
			} else {
				retCov[o.Func] = append(retCov[o.Func], o)
			}
			continue
		}
		nObl++
		kinds[o.Kind]++
		if r := byFunc[o.Func]; r != nil {
			r.Obligations++
			r.Kinds[o.Kind]++
		}
		switch o.Status {
		case "trivial":
			nDis++
			nTriv++
			bySolver["simplifier"]++
			if r := byFunc[o.Func]; r != nil {
				r.Discharged++
				r.Trivial++
			}
		case "unsat":
			nDis++
			bySolver[o.Solver]++
			solverTime += o.Time
			if o.Time > maxTime {
				maxTime = o.Time
			}
			if r := byFunc[o.Func]; r != nil {
				r.Discharged++
			}
		default:
			failed = append(failed, o)
		}
	}
	// a function none of whose return points is reachable under its accumulated assumptions is vacuously verified
	for _, os := range retCov {
		all := true
		for _, o := range os {
			if o.Status != "unsat" {
				all = false
			}
		}
		if all && len(os) > 0 {
			os[0].Output = "VACUOUS: no return point of this function is reachable under the accumulated assumptions\n" + os[0].Output
			failed = append(failed, os[0])
		}
	}
	// report
	exit := 0
	var violations []map[string]string
	var knownHit []string
	for _, le := range loadErrors {
		fmt.Printf("LOAD-ERROR: %s\n", le)
	}
	if len(loadErrors) > 0 {
		rp := writeReplay(*verifDir, prop, "load", "load/contract binding failed:\n"+strings.Join(loadErrors, "\n"))
		fmt.Printf("VIOLATION property=%s replay=%s obligation=contract-target no-failing-input-found\n", prop, rp)
		violations = append(violations, map[string]string{"obligation": "contract-target", "detail": strings.Join(loadErrors, "; ")})
		exit = 1
	}
	sort.Slice(failed, func(i, j int) bool { return failed[i].Name < failed[j].Name })
	// replay (in parallel, at most maxReplays) the counterexamples of failed obligations that are not known findings
	type replayRes struct {
		text string
		ok   bool
		done bool
	}
	replays := make([]replayRes, len(failed))
	{
		const maxReplays = 8
		var rwg sync.WaitGroup
		rsem := make(chan struct{}, 4)
		n := 0
		for i, o := range failed {
			replayable := o.Status == "sat" || ((o.Status == "timeout" || o.Status == "unknown") && o.Ctx != nil && o.Ctx.top != nil &&
				(o.Kind == "post" || o.Kind == "bounds" || o.Kind == "slice" || o.Kind == "nilmap" || o.Kind == "assert-type" || o.Kind == "nilptr"))
			if !replayable || o.Kind == "cover" || matchKnown(known, prop, o.Key()) != nil || n >= maxReplays {
				continue
			}
			n++
			rwg.Add(1)
			rsem <- struct{}{}
			go func(i int, o *Obligation) {
				defer rwg.Done()
				defer func() { <-rsem }()
				sub, _ := os.MkdirTemp(scratch, "replay-")
				t, ok := tryReplay(o, *repo, sub)
				replays[i] = replayRes{t, ok, true}
			}(i, o)
		}
		rwg.Wait()
	}
	for i, o := range failed {
		key := o.Key()
		if kf := matchKnown(known, prop, key); kf != nil {
			fmt.Printf("KNOWN-FINDING: property=%s %s (%s)\n", prop, kf.What, key)
			knownHit = append(knownHit, key)
			continue
		}
		body := fmt.Sprintf("obligation: %s\nkey: %s\nkind: %s\nfunction: %s\nsource: %s\nclause/reason: %s\nsolver verdict: %s\n\n%s\n", o.Name, key, o.Kind, o.Func, o.Pos, o.Src, o.Status, o.Output)
		suffix := " no-failing-input-found"
		if replays[i].done {
			body += "\n--- replay ---\n" + replays[i].text
			if replays[i].ok {
				suffix = ""
			}
		} else if o.Status == "sat" {
			body += "\n--- replay ---\nnot replayed (replay budget of this run exhausted); model:\n" + firstLines(o.Model, 40)
		}
		rp := writeReplay(*verifDir, prop, o.Name, body)
		fmt.Printf("VIOLATION property=%s replay=%s obligation=%q verdict=%s%s\n", prop, rp, o.Name, o.Status, suffix)
		violations = append(violations, map[string]string{"obligation": o.Name, "verdict": o.Status, "replay": rp})
		exit = 1
	}
	if nContracted == 0 && len(loadErrors) == 0 {
		fmt.Printf("VIOLATION property=%s replay=%s obligation=no-contracts no-failing-input-found\n", prop, writeReplay(*verifDir, prop, "none", "no function under contract for this property: vacuous"))
		exit = 1
	}
	if nObl == 0 && exit == 0 {
		fmt.Printf("VIOLATION property=%s replay=%s obligation=zero-obligations no-failing-input-found\n", prop, writeReplay(*verifDir, prop, "zero", "zero obligations generated: vacuous"))
		exit = 1
	}
	// evidence
	var tb []string
	for t := range trusted {
		tb = append(tb, t)
	}
	sort.Strings(tb)
	tb = append(tb,
		"model: maps are heap objects (typed heaps), slices are immutable sequence values, strings are byte strings (SMT String, chars 0..255)",
		"model: map range delivers the entries in an arbitrary order; while the key set is unchanged since the range started every entry is delivered exactly once (ghost count and visited set); nothing about order is assumed",
		"engine: govc itself (VC generator over go/ssa NaiveForm) is unverified; guarded by the must-fail selftest corpus",
	)
	var samples []map[string]string
	for _, o := range allObls {
		if o.Status == "unsat" && len(samples) < 6 && o.Kind != "cover" && o.Goal != nil {
			g := o.Ctx.eng.ts.Show(o.Goal)
			if len(g) > 600 {
				g = g[:600] + " ..."
			}
			samples = append(samples, map[string]string{"obligation": o.Name, "solver": o.Solver, "goal": g, "clause": o.Src})
		}
	}
	if len(samples) == 0 {
		for _, o := range allObls {
			if len(samples) < 3 {
				samples = append(samples, map[string]string{"obligation": o.Name, "status": o.Status})
			}
		}
	}
	ev := map[string]interface{}{
		"property_id": prop,
		"tier":        *tier,
		"seed":        seed,
		"level":       "proof",
		"wall_s":      time.Since(t0).Seconds(),
		"violations":  len(violations),
		"assumptions": tb,
		"coverage": map[string]interface{}{
			"obligations":         nObl,
			"discharged":          nDis,
			"discharged_trivially_by_simplifier": nTriv,
			"checker_cmd":         "bin/govc check " + prop + " --tier " + *tier,
			"trusted_base":        tb,
			"samples":             samples,
			"functions_under_contract": reports,
			"obligations_by_kind": kinds,
			"discharged_by_backend": bySolver,
			"solver_time_total_s": solverTime,
			"solver_time_max_s":   maxTime,
			"per_obligation_timeout_s": timeoutS,
			"vacuity_covers":      covers,
			"cross_checked":       crossStats(allObls),
			"slowest_obligations": slowest(allObls, 8),
			"known_findings_hit":  knownHit,
			"violations":          violations,
			"bounded":             []string{},
			"explanation":         propExplanation(prop),
		},
	}
	os.MkdirAll(filepath.Join(*verifDir, "evidence"), 0o755)
	b, _ := json.MarshalIndent(ev, "", " ")
	os.WriteFile(filepath.Join(*verifDir, "evidence", prop+".json"), b, 0o644)
	fmt.Printf("govc: property %s: %d obligations, %d discharged (%d by simplifier), %d failed, %d known findings, %.1fs\n", prop, nObl, nDis, nTriv, len(failed)-len(knownHit), len(knownHit), time.Since(t0).Seconds())
	if *verbose {
		for _, o := range allObls {
			if o.Time > 1.0 {
				fmt.Printf("  slow: %-60s %s %.1fs %s\n", o.Name, o.Solver, o.Time, o.Status)
			}
		}
		for _, r := range reports {
			fmt.Printf("  %-50s obl=%d dis=%d %s\n", r.Name, r.Obligations, r.Discharged, r.Error)
		}
	}
	_ = engines
	return exit
}

// Key: ordinal-free identification of an obligation (function : kind : source text).
func (o *Obligation) Key() string {
	return fmt.Sprintf("%s:%s:%s", o.Func, o.Kind, strings.TrimSpace(o.Src))
}

func loadKnown(path string) []KnownFinding {
	b, err := os.ReadFile(path)
	if err != nil {
		return nil
	}
	var k struct {
		Findings []KnownFinding `json:"findings"`
	}
	json.Unmarshal(b, &k)
	return k.Findings
}

func matchKnown(ks []KnownFinding, prop, key string) *KnownFinding {
	for i := range ks {
		if ks[i].Status == "open" && ks[i].Property == prop && ks[i].Obligation == key {
			return &ks[i]
		}
	}
	return nil
}

func writeReplay(verifDir, prop, name, body string) string {
	dir := filepath.Join(verifDir, "replay")
	os.MkdirAll(dir, 0o755)
	fn := filepath.Join(dir, prop+"-"+sanitize(name)+".txt")
	if len(fn) > 200 {
		fn = fn[:200] + ".txt"
	}
	os.WriteFile(fn, []byte(body), 0o644)
	return fn
}

func (c *FnCtx) coverObligations() []*Obligation {
	// entry assumptions must not be contradictory: (facts at entry) ∧ true is satisfiable
	if c.entryFacts == 0 {
		return nil
	}
	ts := c.eng.ts
	fname := c.top.RelString(c.top.Pkg.Pkg)
	o := &Obligation{Name: fname + ":cover:entry", Kind: "cover", Func: fname, Goal: ts.Bool(false), NFacts: c.entryFacts, Ctx: c, Src: "requires ∧ package invariant satisfiable"}
	return append(append([]*Obligation{o}, c.retCovers...), c.backCovers...)
}

var _ = ssa.NaiveForm


// cmdReplay re-runs, against /repo's current working tree, the concrete tests recorded in a replay file
// (the file a VIOLATION line points to) and prints their output.
func cmdReplay(args []string) {
	if len(args) < 1 {
		fmt.Fprintln(os.Stderr, "usage: govc replay <replay-file> [--repo DIR]")
		os.Exit(2)
	}
	repo := "/repo"
	for i := 1; i+1 < len(args); i++ {
		if args[i] == "--repo" {
			repo = args[i+1]
		}
	}
	data, err := os.ReadFile(args[0])
	if err != nil {
		fmt.Fprintln(os.Stderr, err)
		os.Exit(2)
	}
	text := string(data)
	fmt.Println(firstLines(text, 12))
	pat := "."
	for _, l := range strings.Split(text, "\n") {
		if strings.HasPrefix(l, "source: ") {
			src := strings.TrimPrefix(l, "source: ")
			if i := strings.Index(src, ":"); i > 0 {
				src = src[:i]
			}
			for _, sub := range []string{"x2j-wrapper", "j2x", "x2j"} {
				if strings.Contains(src, "/"+sub+"/") {
					pat = "./" + sub
				}
			}
		}
	}
	var tests []string
	var cur []string
	in := false
	for _, l := range strings.Split(text, "\n") {
		if strings.HasPrefix(l, "//go:build verif") {
			in, cur = true, nil
		}
		if in && (strings.HasPrefix(l, "test output:") || strings.HasPrefix(l, "REPRODUCED=") || strings.HasPrefix(l, "corpus search") || strings.HasPrefix(l, "model inputs")) {
			tests = append(tests, strings.Join(cur, "\n"))
			in = false
		}
		if in {
			cur = append(cur, l)
		}
	}
	if in && len(cur) > 0 {
		tests = append(tests, strings.Join(cur, "\n"))
	}
	if len(tests) == 0 {
		fmt.Println("\nno concrete test recorded in this replay file (the verifier gave no counterexample: no-failing-input-found)")
		return
	}
	ld, err := Load(repo, pat)
	if err != nil {
		fmt.Fprintln(os.Stderr, err)
		os.Exit(2)
	}
	eng := NewEngine(ld)
	scratch, _ := os.MkdirTemp("", "govc-replay-")
	defer os.RemoveAll(scratch)
	c := &FnCtx{eng: eng}
	for i, t := range tests {
		fmt.Printf("\n=== recorded test %d of %d, re-run on %s ===\n", i+1, len(tests), repo)
		out := runReplayTest(c, repo, scratch, t)
		fmt.Println(firstLines(grepLines(out, "VERIF-REPLAY|panic|FAIL|^ok|PASS"), 30))
	}
}


// crossStats: thorough tier — how many discharged obligations were confirmed by the other solver family.
func crossStats(obls []*Obligation) map[string]int {
	out := map[string]int{}
	for _, o := range obls {
		if o.Kind == "cover" || o.Status != "unsat" || o.CrossChecked == "" {
			continue
		}
		k := "confirmed"
		if strings.Contains(o.CrossChecked, "unsat core") {
			k = "confirmed (cvc5 refutes the unsat core named by z3)"
		} else if strings.Contains(o.CrossChecked, "reduced problem") {
			k = "confirmed (cvc5 on a reduced hypothesis set)"
		} else if strings.HasPrefix(o.CrossChecked, "not confirmed") {
			k = "no other solver gave an answer (problem without nested sequences; z3 answer stands)"
		} else if strings.HasPrefix(o.CrossChecked, "confirmed by z3-4.8.12") {
			k = "confirmed by z3 4.8.12 only (cvc5 gave no answer within 8 s)"
		}
		out[k]++
	}
	return out
}


// slowest: the obligations with the largest solver time (for keeping the quick tier well inside its limits).
func slowest(obls []*Obligation, n int) []map[string]interface{} {
	var l []*Obligation
	for _, o := range obls {
		if o.Time > 0 {
			l = append(l, o)
		}
	}
	sort.Slice(l, func(i, j int) bool { return l[i].Time > l[j].Time })
	if len(l) > n {
		l = l[:n]
	}
	var out []map[string]interface{}
	for _, o := range l {
		out = append(out, map[string]interface{}{"obligation": o.Name, "seconds": o.Time, "solver": o.Solver})
	}
	return out
}
