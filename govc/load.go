package main

// Loading of /repo's current working tree: go/packages -> contracts -> generated ghost file -> go/types -> go/ssa (NaiveForm).

import (
	"fmt"
	"go/ast"
	"go/parser"
	"go/token"
	"go/types"
	"os"
	"path/filepath"
	"sort"
	"strings"

	"golang.org/x/tools/go/packages"
	"golang.org/x/tools/go/ssa"
	"golang.org/x/tools/go/ssa/ssautil"
)

const modPath = "github.com/clbanning/mxj/v2"

type Loaded struct {
	Fset      *token.FileSet
	Pkg       *types.Package
	Info      *types.Info
	Files     []*ast.File
	SSA       *ssa.Package
	Prog      *ssa.Program
	Contracts *Contracts
	GhostSrc  string
	Errors    []string // fail-closed loading errors (contract-target etc.)
	byObj     map[*types.Func]*FuncContract
	byFn      map[*ssa.Function]*FuncContract
}

type mapImporter map[string]*types.Package

func (m mapImporter) Import(path string) (*types.Package, error) {
	if p, ok := m[path]; ok {
		return p, nil
	}
	return nil, fmt.Errorf("import %q not loaded", path)
}

func goEnv() []string {
	return append(os.Environ(), "GOFLAGS=-mod=mod", "GOPROXY=off", "GOSUMDB=off", "GOTOOLCHAIN=local")
}

// Load loads package pattern (".", "./j2x", ...) from repoDir with tag verif.
func Load(repoDir, pattern string) (*Loaded, error) {
	fset := token.NewFileSet()
	cfg := &packages.Config{
		Mode: packages.NeedName | packages.NeedFiles | packages.NeedCompiledGoFiles | packages.NeedImports | packages.NeedDeps |
			packages.NeedTypes | packages.NeedSyntax | packages.NeedTypesInfo | packages.NeedTypesSizes,
		Dir:        repoDir,
		Fset:       fset,
		BuildFlags: []string{"-tags=verif"},
		Env:        goEnv(),
		ParseFile: func(fset *token.FileSet, filename string, src []byte) (*ast.File, error) {
			return parser.ParseFile(fset, filename, src, parser.ParseComments|parser.SkipObjectResolution)
		},
	}
	pkgs, err := packages.Load(cfg, pattern)
	if err != nil {
		return nil, err
	}
	if len(pkgs) != 1 {
		return nil, fmt.Errorf("expected one package for %s, got %d", pattern, len(pkgs))
	}
	p := pkgs[0]
	if len(p.Errors) > 0 {
		var es []string
		for _, e := range p.Errors {
			es = append(es, e.Error())
		}
		return nil, fmt.Errorf("package %s does not compile: %s", pattern, strings.Join(es, "; "))
	}
	ld := &Loaded{Fset: fset}
	// import map (transitive)
	imp := mapImporter{}
	var visit func(q *packages.Package)
	visit = func(q *packages.Package) {
		if _, ok := imp[q.PkgPath]; ok {
			return
		}
		if q.Types != nil {
			imp[q.PkgPath] = q.Types
		}
		for _, d := range q.Imports {
			visit(d)
		}
	}
	for _, d := range p.Imports {
		visit(d)
	}
	// contracts
	cs := ParseContracts(fset, p.Syntax)
	ld.Contracts = cs
	ld.Errors = append(ld.Errors, cs.Errors...)
	imports := map[string]string{}
	for _, f := range p.Syntax {
		for _, is := range f.Imports {
			path := strings.Trim(is.Path.Value, `"`)
			name := ""
			if is.Name != nil {
				name = is.Name.Name
			} else if ip, ok := imp[path]; ok {
				name = ip.Name()
			} else {
				name = filepath.Base(path)
			}
			if name == "." {
				// dot import: generated code refers to the package by its real name
				if ip, ok := imp[path]; ok {
					imports[ip.Name()] = path
				}
				continue
			}
			if name != "_" {
				imports[name] = path
			}
		}
	}
	gg := &GhostGen{pkg: p.Types, fset: fset, info: p.TypesInfo, files: p.Syntax, imports: imports, cs: cs}
	src, gerrs := gg.Generate()
	ld.Errors = append(ld.Errors, gerrs...)
	ld.GhostSrc = src
	pkgDir := repoDir
	if len(p.GoFiles) > 0 {
		pkgDir = filepath.Dir(p.GoFiles[0])
	}
	gf, err := parser.ParseFile(fset, filepath.Join(pkgDir, "zz_verif_ghost_generated.go"), src, parser.ParseComments|parser.SkipObjectResolution)
	if err != nil {
		return nil, fmt.Errorf("generated ghost file does not parse: %v\n%s", err, src)
	}
	files := append(append([]*ast.File{}, p.Syntax...), gf)
	tc := &types.Config{Importer: imp, Sizes: p.TypesSizes}
	var terrs []string
	tc.Error = func(err error) { terrs = append(terrs, err.Error()) }
	tpkg := types.NewPackage(p.PkgPath, p.Name)
	spkg, info, err := ssautil.BuildPackage(tc, fset, tpkg, files, ssa.NaiveForm)
	if err != nil || len(terrs) > 0 {
		sort.Strings(terrs)
		// quote the generated clause function each error points into: it names the contract clause that does not bind
		lines := strings.Split(src, "\n")
		var quoted []string
		for _, te := range terrs {
			if i := strings.Index(te, "zz_verif_ghost_generated.go:"); i >= 0 {
				var ln int
				fmt.Sscanf(te[i+len("zz_verif_ghost_generated.go:"):], "%d", &ln)
				if ln >= 1 && ln <= len(lines) {
					l := lines[ln-1]
					if len(l) > 600 {
						l = l[:600] + "..."
					}
					quoted = append(quoted, fmt.Sprintf("line %d: %s", ln, l))
				}
			}
		}
		return nil, fmt.Errorf("type-checking with generated contract functions failed:\n  %s\n(err=%v)\n%s", strings.Join(terrs, "\n  "), err, strings.Join(quoted, "\n"))
	}
	ld.Pkg = tpkg
	ld.Info = info
	ld.Files = files
	ld.SSA = spkg
	ld.Prog = spkg.Prog
	// rebind contracts to the re-checked package objects
	ld.byObj = map[*types.Func]*FuncContract{}
	ld.byFn = map[*ssa.Function]*FuncContract{}
	for _, name := range cs.Order {
		fc := cs.Funcs[name]
		if fc.IsInit {
			if sf := spkg.Func("init"); sf != nil {
				ld.byFn[sf] = fc
			}
			continue
		}
		fn := lookupFunc(tpkg, name)
		if fn == nil {
			continue
		}
		fc.Obj = fn
		ld.byObj[fn] = fc
		if sf := ld.Prog.FuncValue(fn); sf != nil {
			ld.byFn[sf] = fc
		}
	}
	return ld, nil
}

// GhostFunc returns the SSA function generated for a clause.
func (ld *Loaded) GhostFunc(name string) *ssa.Function {
	return ld.SSA.Func(name)
}

// localsByPos maps the declaration position of each local variable to its name (for invariant binding).
func localPos(ld *Loaded, fc *FuncContract, ref *LocalRef) token.Pos {
	// positions are stable between the first and second type-check because the same *ast.File nodes are reused
	return ref.Var.Pos()
}
