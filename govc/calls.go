package main

import (
	"os"
	"fmt"
	"go/token"
	"go/types"
	"path/filepath"
	"sort"
	"strings"

	"golang.org/x/tools/go/ssa"
)

type modTarget struct {
	global *ssa.Global
	heap   string
	obj    *Term // nil: whole heap
	all    bool
}

func (e *Engine) isGhostFn(fn *ssa.Function) bool {
	if fn == nil || fn.Pkg == nil || fn.Pkg != e.ld.SSA {
		return false
	}
	p := fn.Pos()
	if !p.IsValid() {
		if fn.Parent() != nil {
			return e.isGhostFn(fn.Parent())
		}
		return false
	}
	base := filepath.Base(e.ld.Fset.Position(p).Filename)
	return strings.HasPrefix(base, "verif_") || strings.HasPrefix(base, "zz_verif")
}

// ---- ghost evaluation ----

// evalGhost evaluates a pure ghost function in state st and returns its single result.
func (c *FnCtx) evalGhost(st *State, gf *ssa.Function, args []*Term) *Term {
	if gf == nil {
		unsupported("missing ghost function")
	}
	c.noObl++
	defer func() { c.noObl-- }()
	work := st.clone()
	saved := c.writeLog
	c.writeLog = nil
	res := c.inline(work, gf, args, true)
	c.writeLog = saved
	if len(res) != 1 {
		unsupported("ghost function %s must return one value", gf.Name())
	}
	return res[0]
}

// inline executes fn's body in st (mutated in place) and returns merged results.
func (c *FnCtx) inline(st *State, fn *ssa.Function, args []*Term, ghost bool) []*Term {
	ts := c.eng.ts
	if fn.Blocks == nil {
		unsupported("cannot inline %s: no body", fn)
	}
	if len(c.stack) > 40 {
		unsupported("inlining too deep at %s", fn)
	}
	fr := c.newFrame(fn)
	fr.ghost = ghost
	for i, p := range fn.Params {
		fr.regs[p] = args[i]
		fr.params = append(fr.params, args[i])
	}
	if len(fn.FreeVars) > 0 {
		if len(c.pendingBindings) != len(fn.FreeVars) {
			unsupported("closure %s without bindings", fn)
		}
		for i, fv := range fn.FreeVars {
			fr.regs[fv] = c.pendingBindings[i]
		}
		c.pendingBindings = nil
	}
	c.stack = append(c.stack, fn)
	defer func() { c.stack = c.stack[:len(c.stack)-1] }()
	c.runFrame(fr, st.clone())
	if len(fr.rets) == 0 {
		// no return reachable: the call never returns normally on this path
		st.pc = ts.Bool(false)
		var zs []*Term
		for i := 0; i < fn.Signature.Results().Len(); i++ {
			zs = append(zs, c.eng.tc.Zero(fn.Signature.Results().At(i).Type()))
		}
		return zs
	}
	var sts []*State
	for _, rp := range fr.rets {
		sts = append(sts, rp.st)
	}
	m := c.merge(sts)
	nres := fn.Signature.Results().Len()
	out := make([]*Term, nres)
	for i := 0; i < nres; i++ {
		var r *Term
		for j := len(fr.rets) - 1; j >= 0; j-- {
			if r == nil {
				r = fr.rets[j].vals[i]
			} else {
				r = ts.Ite(fr.rets[j].st.pc, fr.rets[j].vals[i], r)
			}
		}
		out[i] = r
	}
	// paths inside the callee that ended in a panic obligation narrow the pc; the caller continues with returned paths only
	*st = *m
	return out
}

// ---- spec functions (recursive ghost functions): uninterpreted symbol + instantiated definitional unfolding ----

type SpecInfo struct {
	fn      *ssa.Function
	heaps   []string
	globals []*ssa.Global
	rec     bool
	done    bool
}

func (e *Engine) specInfo(fn *ssa.Function) *SpecInfo {
	if si, ok := e.specFns[fn]; ok {
		return si
	}
	si := &SpecInfo{fn: fn}
	e.specFns[fn] = si
	heaps := map[string]bool{}
	globals := map[*ssa.Global]bool{}
	seen := map[*ssa.Function]bool{}
	var visit func(f *ssa.Function)
	visit = func(f *ssa.Function) {
		if seen[f] || f.Blocks == nil {
			return
		}
		seen[f] = true
		for _, b := range f.Blocks {
			for _, in := range b.Instrs {
				switch x := in.(type) {
				case *ssa.Lookup:
					if _, ok := x.X.Type().Underlying().(*types.Map); ok {
						k := typeKey(x.X.Type().Underlying())
						e.registerMapHeaps(x.X.Type())
						heaps["Mdom:"+k], heaps["Msel:"+k], heaps["Mlen:"+k] = true, true, true
					}
				case *ssa.Range:
					if _, ok := x.X.Type().Underlying().(*types.Map); ok {
						k := typeKey(x.X.Type().Underlying())
						e.registerMapHeaps(x.X.Type())
						heaps["Mdom:"+k], heaps["Msel:"+k], heaps["Mlen:"+k] = true, true, true
					}
				case *ssa.UnOp:
					if x.Op == token.MUL {
						if g, ok := x.X.(*ssa.Global); ok {
							globals[g] = true
						} else if _, isAlloc := x.X.(*ssa.Alloc); !isAlloc {
							pt := x.X.Type().Underlying().(*types.Pointer).Elem()
							if fa, ok := x.X.(*ssa.FieldAddr); ok {
								spt := fa.X.Type().Underlying().(*types.Pointer).Elem()
								if _, isAl := fa.X.(*ssa.Alloc); !isAl && isStructNonOpaque(spt) {
									hn := "F:" + typeKey(spt) + "." + spt.Underlying().(*types.Struct).Field(fa.Field).Name()
									e.heapSorts[hn] = ArrOf(SInt, e.tc.SortOf(spt.Underlying().(*types.Struct).Field(fa.Field).Type()))
									heaps[hn] = true
								}
							} else if _, ok := x.X.(*ssa.IndexAddr); !ok {
								if isStructNonOpaque(pt) {
									stt := pt.Underlying().(*types.Struct)
									for i := 0; i < stt.NumFields(); i++ {
										hn := "F:" + typeKey(pt) + "." + stt.Field(i).Name()
										e.heapSorts[hn] = ArrOf(SInt, e.tc.SortOf(stt.Field(i).Type()))
										heaps[hn] = true
									}
								} else if !isOpaqueStruct(pt) {
									e.heapSorts["P:"+typeKey(pt)] = ArrOf(SInt, e.tc.SortOf(pt))
									heaps["P:"+typeKey(pt)] = true
								}
							}
						}
					}
				case *ssa.Call:
					if b, ok := x.Call.Value.(*ssa.Builtin); ok && b.Name() == "len" {
						if _, ok := x.Call.Args[0].Type().Underlying().(*types.Map); ok {
							k := typeKey(x.Call.Args[0].Type().Underlying())
							e.registerMapHeaps(x.Call.Args[0].Type())
							heaps["Mdom:"+k], heaps["Msel:"+k], heaps["Mlen:"+k] = true, true, true
						}
					}
					if cf := x.Call.StaticCallee(); cf != nil {
						if cf == fn {
							si.rec = true
						}
						if gh := ghostIntrinsicHeaps(cf); gh != nil {
							for _, h := range gh {
								if strings.HasPrefix(h, "G:") {
									e.heapSorts[h] = ghostHeapSort(h)
								} else if strings.HasPrefix(h, "M") {
									e.registerMapHeaps(types.NewMap(types.Typ[types.String], types.NewInterfaceType(nil, nil)))
								}
								heaps[h] = true
							}
						}
						visit(cf)
					}
				}
			}
		}
	}
	visit(fn)
	// mutual recursion: treat any ghost function reachable from itself as recursive
	if !si.rec {
		var reach func(f *ssa.Function, seen map[*ssa.Function]bool) bool
		reach = func(f *ssa.Function, seen map[*ssa.Function]bool) bool {
			if seen[f] || f.Blocks == nil {
				return false
			}
			seen[f] = true
			for _, b := range f.Blocks {
				for _, in := range b.Instrs {
					if cl, ok := in.(*ssa.Call); ok {
						if cf := cl.Call.StaticCallee(); cf != nil {
							if cf == fn || reach(cf, seen) {
								return true
							}
						}
					}
				}
			}
			return false
		}
		si.rec = reach(fn, map[*ssa.Function]bool{})
	}
	for h := range heaps {
		si.heaps = append(si.heaps, h)
	}
	sort.Strings(si.heaps)
	for g := range globals {
		si.globals = append(si.globals, g)
	}
	sort.Slice(si.globals, func(i, j int) bool { return si.globals[i].Name() < si.globals[j].Name() })
	return si
}

func typeKeyU(t types.Type) string { return typeKey(t.Underlying()) }

// specApp: uninterpreted application of a ghost function (no unfolding).
func (c *FnCtx) specApp(st *State, fn *ssa.Function, args []*Term) []*Term {
	saved := c.eng.fuel
	c.eng.fuel = -1
	defer func() { c.eng.fuel = saved }()
	return c.specCall(st, fn, args)
}

// specCall: application of a recursive ghost function.
func (c *FnCtx) specCall(st *State, fn *ssa.Function, args []*Term) []*Term {
	savedTag := c.curTag
	c.curTag = 2
	defer func() { c.curTag = savedTag }()
	ts := c.eng.ts
	si := c.eng.specInfo(fn)
	var uargs []*Term
	shallow := false
	if c.fc != nil {
		for _, o := range c.fc.OpaqueShallow {
			if o == fn.Name() {
				shallow = true
			}
		}
	}
	if shallow {
		uargs = c.shallowArgs(st, fn, si, args)
	} else {
		for _, h := range si.heaps {
			srt, ok := c.eng.heapSorts[h]
			if !ok {
				continue // heap never materialised in this run: the function cannot depend on anything we know
			}
			uargs = append(uargs, c.heap(st, h, srt))
		}
	}
	for _, g := range si.globals {
		uargs = append(uargs, c.getCell(st, c.eng.globalCell(g)))
	}
	uargs = append(uargs, args...)
	nres := fn.Signature.Results().Len()
	out := make([]*Term, nres)
	for i := 0; i < nres; i++ {
		name := "spec!" + fn.Name()
		if nres > 1 {
			name = fmt.Sprintf("spec!%s!%d", fn.Name(), i)
		}
		if shallow {
			name = "shallow!" + name
		}
		out[i] = ts.UF(name, c.eng.tc.SortOf(fn.Signature.Results().At(i).Type()), uargs...)
	}
	if c.specDepth == nil {
		c.specDepth = map[*ssa.Function]int{}
		c.specSeen = map[string]bool{}
	}
	if !shallow {
		c.specFrameLemma(st, fn, si, uargs, args, out)
	}
	if gfc := c.eng.ld.byFn[fn]; gfc != nil && len(gfc.Ensures) > 0 && !(fn == c.top) {
		ck := fmt.Sprintf("contract@%d", out[0].id)
		if !c.specSeen[ck] {
			c.specSeen[ck] = true
			c.eng.usedSpecContracts[fn] = true
			// the function's contract (verified separately, by induction) holds for this application
			// the lemma instance is asserted on every path, so it must be evaluated under a neutral path condition
			// (evaluating it under the current one yields "pc and clause", which is NOT valid on the other paths)
			work := st.clone()
			work.pc = ts.Bool(true)
			pre := []*Term{}
			for _, rq := range gfc.Requires {
				pre = append(pre, c.evalGhost(work, c.eng.ld.GhostFunc(rq.Fn), args))
			}
			pargs := append(append([]*Term{}, args...), out...)
			for _, en := range gfc.Ensures {
				r := c.evalGhost(work, c.eng.ld.GhostFunc(en.Fn), pargs)
				c.addFactT(&State{pc: ts.Bool(true)}, out[0], ts.Implies(ts.And(pre...), r))
			}
		}
	}
	key := fmt.Sprintf("%d@%d", out[0].id, c.specDepth[fn])
	if gfc := c.eng.ld.byFn[fn]; gfc != nil && gfc.Uf && len(ts.FreeBoundVars(out[0])) > 0 {
		return out
	}
	if c.specDepth[fn] < c.eng.fuel && !c.specSeen[key] {
		c.specSeen[key] = true
		c.specDepth[fn]++
		// The definitional instance  f(args) = body(args)  holds on every path: evaluate the body under a neutral
		// path condition (merges inside are then only guarded by the body's own branch conditions).
		work := st.clone()
		work.pc = ts.Bool(true)
		body := c.inline(work, fn, args, true)
		c.specDepth[fn]--
		for i := range out {
			c.addFactT(&State{pc: ts.Bool(true)}, out[i], ts.Eq(out[i], body[i]))
		}
	}
	return out
}

// specFrameLemma: a ghost function applied to objects that existed when the verified function was entered has the
// same value in a "havoc fresh-maps" heap as in the heap before that havoc. Sound because (a) such a heap agrees with
// the older one on every object below the entry watermark (each store in the loop carries a loop-frame obligation),
// (b) the verified function has no modifies clause, so objects below the entry watermark keep their entry content,
// which only refers to objects below the entry watermark, and (c) ghost functions only read what is reachable from
// their arguments. Generated only when every argument is a scalar, a sequence of scalars, or a map reference.
func (c *FnCtx) specFrameLemma(st *State, fn *ssa.Function, si *SpecInfo, uargs, args, out []*Term) {
	ts := c.eng.ts
	if c.fc == nil || len(c.fc.Modifies) > 0 || c.entryWM == nil {
		if os.Getenv("GOVC_DEBUG_FRAME") != "" {
			fmt.Fprintf(os.Stderr, "specFrameLemma %s: skipped fc=%v entryWM=%v\n", fn.Name(), c.fc != nil, c.entryWM != nil)
		}
		return
	}
	nh := 0
	for _, h := range si.heaps {
		if _, ok := c.eng.heapSorts[h]; ok {
			nh++
		}
	}
	repl := append([]*Term{}, uargs...)
	changed := false
	var conds []*Term
	for i := 0; i < nh && i < len(repl); i++ {
		for {
			if li, ok := c.layers[repl[i].id]; ok && li.fresh {
				repl[i] = li.old
				changed = true
				continue
			}
			if t := repl[i]; t.kind == kApp && t.op == "store" && len(conds) < 12 {
				// a store to an object allocated after entry does not matter either
				conds = append(conds, ts.Ge(t.args[1], c.entryWM))
				repl[i] = t.args[0]
				changed = true
				continue
			}
			break
		}
	}
	if os.Getenv("GOVC_DEBUG_FRAME") != "" {
		fmt.Fprintf(os.Stderr, "specFrameLemma %s: nh=%d changed=%v heaps=%v\n", fn.Name(), nh, changed, si.heaps)
	}
	if !changed {
		return
	}
	params := fn.Signature.Params()
	off := len(uargs) - len(args)
	for i, a := range args {
		var pt types.Type
		if fn.Signature.Recv() != nil {
			if i == 0 {
				pt = fn.Signature.Recv().Type()
			} else {
				pt = params.At(i - 1).Type()
			}
		} else {
			pt = params.At(i).Type()
		}
		_ = off
		switch u := pt.Underlying().(type) {
		case *types.Basic:
		case *types.Map:
			conds = append(conds, ts.Lt(a, c.entryWM))
		case *types.Slice:
			if _, ok := u.Elem().Underlying().(*types.Basic); !ok {
				return
			}
		case *types.Interface:
			if !(a.kind == kApp && a.op == "VNil") {
				// a scalar, or a map that existed at entry (a list could hold younger maps: not covered)
				conds = append(conds, ts.Not(ts.App("(_ is VList)", SBool, a)), ts.Not(ts.App("(_ is VBox)", SBool, a)),
					ts.Implies(ts.App("(_ is VMap)", SBool, a), ts.Lt(ts.App("vmap", SInt, a), c.entryWM)))
			}
		default:
			return
		}
	}
	for i := range out {
		older := ts.UF(out[i].op, out[i].sort, repl...)
		c.addFactT(&State{pc: ts.Bool(true)}, out[i], ts.Implies(ts.And(conds...), ts.Eq(out[i], older)))
	}
	c.trusted["ghost functions depend only on what is reachable from their arguments (frame lemma for objects older than the verified call)"] = true
}

// ---- calls ----

func (c *FnCtx) setResult(fr *Frame, x *ssa.Call, res []*Term) {
	n := x.Call.Signature().Results().Len()
	switch n {
	case 0:
	case 1:
		fr.regs[x] = res[0]
	default:
		t := make(Tuple, n)
		for i := range t {
			t[i] = res[i]
		}
		fr.regs[x] = t
	}
}

func (c *FnCtx) call(fr *Frame, st *State, x *ssa.Call, cc *ssa.CallCommon) {
	ts := c.eng.ts
	// builtins
	if b, ok := cc.Value.(*ssa.Builtin); ok {
		c.builtin(fr, st, x, b)
		return
	}
	if cc.IsInvoke() {
		recv := fr.val(cc.Value).(*Term)
		args := []*Term{recv}
		for i, a := range cc.Args {
			args = append(args, c.toTerm(st, fr.val(a), cc.Signature().Params().At(i).Type()))
		}
		c.addObl(st, "nilptr", fmt.Sprintf("#%d invoke %s", c.kindOrd["nilptr"], cc.Method.Name()), ts.Not(c.eng.tc.IsNilVal(recv)), x.Pos(), "method call on nil interface")
		name := "(" + types.TypeString(cc.Value.Type(), nil) + ")." + cc.Method.Name()
		res := c.model(fr, st, x, name, args, cc)
		c.setResult(fr, x, res)
		return
	}
	callee := cc.StaticCallee()
	if callee == nil {
		// dynamic call through a function value
		fv := fr.val(cc.Value)
		if f, ok := fv.(*FuncVal); ok && f.fn != nil {
			c.staticCall(fr, st, x, f.fn, cc, f.bindings)
			return
		}
		c.trusted["callbacks (handlers, checkTagToSkip, CharsetReader) return arbitrary values and do not touch mxj state or the Maps they receive"] = true
		fn := c.toTerm(st, fv, cc.Value.Type())
		c.addObl(st, "nilptr", fmt.Sprintf("#%d call of nil func", c.kindOrd["nilptr"]), ts.Not(ts.Eq(fn, ts.Int(0))), x.Pos(), "call of nil function value")
		c.setResult(fr, x, c.freshResults(st, cc, "dyn"))
		return
	}
	c.staticCall(fr, st, x, callee, cc, nil)
}

func (c *FnCtx) freshResults(st *State, cc *ssa.CallCommon, hint string) []*Term {
	var out []*Term
	rs := cc.Signature().Results()
	for i := 0; i < rs.Len(); i++ {
		out = append(out, c.eng.symbolicInput(c, st, fmt.Sprintf("%s!r%d", hint, i), rs.At(i).Type()))
	}
	return out
}

func (c *FnCtx) staticCall(fr *Frame, st *State, x *ssa.Call, callee *ssa.Function, cc *ssa.CallCommon, bindings []SymVal) {
	if callee.Pkg == c.eng.ld.SSA && (callee.Name() == "verifForall" || callee.Name() == "verifExists") && c.eng.isGhostFn(callee) {
		fr.regs[x] = c.quantifier(fr, st, callee.Name() == "verifForall", fr.val(cc.Args[0]).(*Term), fr.val(cc.Args[1]))
		return
	}
	if callee.Pkg == c.eng.ld.SSA && (callee.Name() == "verifOldInt" || callee.Name() == "verifOldBool") && c.eng.isGhostFn(callee) {
		// the closure is evaluated over the heaps the verified function was entered with (locals keep their
		// current values): "what the specification function would have said at entry"
		f, ok := fr.val(cc.Args[0]).(*FuncVal)
		if !ok || f.fn == nil || c.curTopFrame == nil || c.curTopFrame.entryState == nil {
			unsupported("%s needs a function literal", callee.Name())
		}
		work := st.clone()
		work.heaps = map[string]*Term{}
		for k, v := range c.curTopFrame.entryState.heaps {
			work.heaps[k] = v
		}
		c.noObl++
		var body []*Term
		if len(f.bindings) > 0 {
			body = c.inlineClosure(work, f.fn, nil, f.bindings)
		} else {
			body = c.inline(work, f.fn, nil, true)
		}
		c.noObl--
		fr.regs[x] = body[0]
		return
	}
	if callee.Pkg == c.eng.ld.SSA && (callee.Name() == "verifSumKeys" || callee.Name() == "verifSumVisited") && c.eng.isGhostFn(callee) {
		fr.regs[x] = c.sumIntrinsic(fr, st, callee.Name(), cc)
		return
	}
	if callee.Pkg == c.eng.ld.SSA && callee.Name() == "verifForallKeys" && c.eng.isGhostFn(callee) {
		fr.regs[x] = c.quantifierKeys(fr, st, cc.Args[0].Type(), fr.val(cc.Args[0]).(*Term), fr.val(cc.Args[1]))
		return
	}
	var args []*Term
	sig := callee.Signature
	off := 0
	if sig.Recv() != nil {
		args = append(args, c.toTerm(st, fr.val(cc.Args[0]), sig.Recv().Type()))
		off = 1
	}
	for i := off; i < len(cc.Args); i++ {
		args = append(args, c.toTerm(st, fr.val(cc.Args[i]), sig.Params().At(i-off).Type()))
	}
	inModule := callee.Pkg == c.eng.ld.SSA && callee.Blocks != nil
	if !inModule {
		name := callee.String()
		res := c.model(fr, st, x, name, args, cc)
		c.setResult(fr, x, res)
		return
	}
	if len(bindings) > 0 || len(callee.FreeVars) > 0 {
		if !c.eng.isGhostFn(callee) {
			unsupported("call of closure %s", callee)
		}
		c.setResult(fr, x, c.inlineClosure(st, callee, args, bindings))
		return
	}
	if c.eng.isGhostFn(callee) {
		if res, ok := c.ghostIntrinsic(fr, st, callee, args); ok {
			c.setResult(fr, x, res)
			return
		}
		if gfc := c.eng.ld.byFn[callee]; gfc != nil && callee == c.top && len(c.stack) >= 1 && c.stack[0] == callee && c.noObl == 0 {
			// a specification function verified against its own contract: the recursive call is the induction hypothesis
			c.setResult(fr, x, c.callContract(fr, st, x, callee, gfc, args))
			return
		}
		if !fr.ghost && c.noObl == 0 && !c.eng.isGhostFn(c.top) {
			unsupported("ghost function %s called from real code", callee)
		}
		si := c.eng.specInfo(callee)
		if c.fc != nil {
			for _, o := range c.fc.Opaque {
				if o == callee.Name() {
					c.setResult(fr, x, c.specApp(st, callee, args))
					return
				}
			}
		}
		if gfc := c.eng.ld.byFn[callee]; si.rec || (gfc != nil && gfc.Uf) {
			c.setResult(fr, x, c.specCall(st, callee, args))
			return
		}
		c.setResult(fr, x, c.inline(st, callee, args, true))
		return
	}
	fc := c.eng.ld.byFn[callee]
	if fc != nil && fc.Pure && (fr.ghost || c.noObl > 0) && callee != c.top {
		// mention of a pure function inside a contract clause: its summary together with its (proved) postconditions
		c.setResult(fr, x, c.callContract(fr, st, x, callee, fc, args))
		return
	}
	onStack := false
	for _, f := range c.stack {
		if f == callee {
			onStack = true
		}
	}
	if fc != nil && !(fc.Inline && !onStack) {
		res := c.callContract(fr, st, x, callee, fc, args)
		c.setResult(fr, x, res)
		return
	}
	if onStack {
		unsupported("recursive function %s needs a contract", callee)
	}
	res := c.inline(st, callee, args, fr.ghost)
	if c.fc != nil && c.fc.EscapesValues && !fr.ghost && c.noObl == 0 {
		// C05: a text computed from a Map value by any function other than escapeChars counts as unescaped
		c.markRawDerived(args, res)
	}
	c.setResult(fr, x, res)
}

// valDependent: the term is computed from some interface value (data dependence; ite conditions do not count).
func (c *FnCtx) valDependent(t *Term, memo map[int]bool) bool {
	if v, ok := memo[t.id]; ok {
		return v
	}
	memo[t.id] = false
	r := t.sort == SVal || c.rawDerived[t.id]
	if !r {
		args := t.args
		if t.kind == kApp && t.op == "ite" && len(args) == 3 {
			args = args[1:]
		}
		for _, a := range args {
			if c.valDependent(a, memo) {
				r = true
				break
			}
		}
	}
	memo[t.id] = r
	return r
}

func (c *FnCtx) markRawDerived(args, res []*Term) {
	memo := map[int]bool{}
	dep := false
	for _, a := range args {
		if c.valDependent(a, memo) {
			dep = true
		}
	}
	if !dep {
		return
	}
	if c.rawDerived == nil {
		c.rawDerived = map[int]bool{}
	}
	for _, r := range res {
		if r.sort == SString && r.kind != kLit {
			c.rawDerived[r.id] = true
		}
	}
}

// callContract: modular call — assert requires, havoc modifies, assume ensures.
func (c *FnCtx) callContract(fr *Frame, st *State, x *ssa.Call, callee *ssa.Function, fc *FuncContract, args []*Term) []*Term {
	ts := c.eng.ts
	e := c.eng
	ord := c.kindOrd["callsite"]
	c.kindOrd["callsite"]++
	for i, rq := range fc.Requires {
		r := c.evalGhost(st, e.ld.GhostFunc(rq.Fn), args)
		c.addObl(st, "pre", fmt.Sprintf("%s.req%d@call%d", fc.Name, i, ord), r, x.Pos(), rq.Raw)
		c.assumeChecked(st, r)
	}
	// every function is verified under the package invariant: a caller that has written package variables must have
	// re-established it before calling (the callee's contract says nothing about states that violate it)
	if !c.eng.isGhostFn(callee) && !fr.ghost && c.noObl == 0 && c.wroteGlobals(fr, st) {
		c.checkPkgInv(st, x.Pos(), fmt.Sprintf("call%d of %s", ord, fc.Name))
	}
	var olds []*Term
	for _, o := range fc.Olds {
		olds = append(olds, c.evalGhost(st, e.ld.GhostFunc(o.Fn), args))
	}
	// termination of recursion: the callee's measure is below the measure at entry
	if callee == c.top && fc.Decr != nil && c.entryMeasure != nil && len(c.stack) == 1 {
		m := c.evalGhost(st, e.ld.GhostFunc(fc.Decr.Fn), args)
		c.addObl(st, "variant", fmt.Sprintf("%s@call%d", fc.Name, ord), ts.And(ts.Le(ts.Int(0), c.entryMeasure), ts.Lt(m, c.entryMeasure)), x.Pos(), "decreases "+fc.Decr.Raw)
	} else if callee == c.top && fc.Decr == nil && len(c.stack) == 1 {
		c.trusted["termination of recursive function "+fc.Name+" is not verified (no decreases clause)"] = true
	}
	pre := st.clone()
	// the callee may allocate
	nw := ts.Fresh("wm!call", SInt)
	c.addFact(st, ts.Ge(nw, st.wm))
	st.wm = nw
	if c.writeLog != nil {
		c.writeLog.wm = true
	}
	wroteGlobal := false
	for _, m := range fc.Modifies {
		for _, mt := range c.resolveModifiesAll(pre, callee, m, args) {
			switch {
			case mt.all:
				unsupported("modifies all at call of %s", callee)
			case mt.global != nil:
				cell := e.globalCell(mt.global)
				nv := ts.Fresh("call!"+cell.name, e.tc.SortOf(cell.typ))
				c.typeFacts(st, nv, cell.typ)
				c.setCell(st, cell, nv)
				wroteGlobal = true
			case mt.obj == nil:
				c.setHeapWhole(st, mt.heap, ts.Fresh("call!H!"+mt.heap, c.heapSort(mt.heap)))
			default:
				srt := c.heapSort(mt.heap)
				_, es := srt.ArrParts()
				c.setHeapAt(st, mt.heap, srt, mt.obj, ts.Fresh("call!"+mt.heap, es))
			}
		}
	}
	var res []*Term
	if fc.Pure {
		// a function declared pure is a deterministic function of its arguments, the maps reachable from them and the
		// package options it reads: every call site (and every mention in a contract) gets the same uninterpreted summary
		res = c.pureSummary(pre, callee, args)
		for i, r := range res {
			c.typeFacts(st, r, callee.Signature.Results().At(i).Type())
		}
		c.trusted["declared pure (result is a function of arguments, Map content and options; determinism across map iteration orders is not proved here): "+fc.Name] = true
	} else {
		res = c.freshResults(st, &x.Call, "r!"+callee.Name())
	}
	if wroteGlobal {
		c.assumePkgInv(st)
	}
	pargs := append(append(append([]*Term{}, args...), res...), olds...)
	savedBase := c.freshBase
	savedOld := c.oldState
	c.oldState = pre
	c.freshBase = pre.wm // "fresh" in the callee's postcondition: allocated during the call
	for _, en := range fc.Ensures {
		r := c.evalGhost(st, e.ld.GhostFunc(en.Fn), pargs)
		c.addFact(st, r)
	}
	c.freshBase = savedBase
	c.oldState = savedOld
	if fc.Trusted {
		c.trusted["trusted contract (assumed, body not verified): "+fc.Name] = true
	}
	if callee.Name() == "escapeChars" && len(res) == 1 {
		if c.escaped == nil {
			c.escaped = map[int]bool{}
		}
		c.escaped[res[0].id] = true
	}
	return res
}

// escapeObligations (C05): w is a text about to be written to the output (or stored into the attribute list) by an
// encoder whose contract says "escapes-values". Every component of w that is derived from an interface value - the
// content of the Map - must be a result of escapeChars, or the text of a value that is not a string, unless
// xmlEscapeChars is off on that path. Components that do not depend on any interface value (literals, element and
// attribute names, indentation) are not values. Reads from the attribute list are covered at the store into it.
func (c *FnCtx) escapeObligations(st *State, w *Term, pos token.Pos, what string) {
	if c.fc == nil || !c.fc.EscapesValues || c.noObl > 0 {
		return
	}
	ts := c.eng.ts
	var flag *Term
	if g, ok := c.eng.ld.SSA.Members["xmlEscapeChars"].(*ssa.Global); ok {
		flag = c.getCell(st, c.eng.globalCell(g))
	} else {
		return
	}
	if c.fc.EscapeExempt != nil && c.curTopFrame != nil {
		// texts that are not element or attribute values (comments, directives, processing instructions) are exempt
		ex := c.evalGhost(st, c.eng.ld.GhostFunc(c.fc.EscapeExempt.Fn), c.currentParams(c.curTopFrame, st))
		flag = ts.And(flag, ts.Not(ex))
	}
	dep := map[int]bool{}
	depends := func(t *Term) bool { return c.valDependent(t, dep) }
	n := 0
	var comp func(t *Term, guard *Term)
	comp = func(t *Term, guard *Term) {
		switch {
		case guard.IsFalse() || t.kind == kLit || c.escaped[t.id] || !depends(t):
			return
		case c.rawDerived[t.id]:
			c.addObl(st, "escape", fmt.Sprintf("#%d %s", c.kindOrd["escape"], what), ts.Implies(guard, ts.Not(flag)), pos, "text computed from a Map value by a function other than escapeChars, written although XMLEscapeChars is on")
			return
		case t.kind == kApp && (t.op == "str.++" || t.op == "seq.++"):
			for _, a := range t.args {
				comp(a, guard)
			}
			return
		case t.kind == kApp && t.op == "ite":
			comp(t.args[1], ts.And(guard, t.args[0]))
			comp(t.args[2], ts.And(guard, ts.Not(t.args[0])))
			return
		case (t.kind == kUF || t.kind == kVar) && strings.Contains(t.op, "xml.Marshal"):
			// a non-basic value rendered by encoding/xml itself, which escapes what it writes
			c.trusted["encoding/xml.Marshal / MarshalIndent escape the text they produce"] = true
			return
		case t.kind == kUF && strings.HasPrefix(t.op, "fmt.Sprint") && len(t.args) >= 1:
			// the text of values: fine for numbers and booleans; a string must have been escaped before
			var val func(e *Term, g *Term)
			val = func(e *Term, g *Term) {
				switch {
				case g.IsFalse():
				case e.sort.IsSeq() && e.kind == kApp && (e.op == "seq.++" || e.op == "seq.unit"):
					for _, a := range e.args {
						val(a, g)
					}
				case e.kind == kApp && e.op == "ite":
					val(e.args[1], ts.And(g, e.args[0]))
					val(e.args[2], ts.And(g, ts.Not(e.args[0])))
				case e.kind == kApp && e.op == "VStr" && len(e.args) == 1:
					comp(e.args[0], g)
				case e.sort == SString:
					comp(e, g)
				case e.sort == SVal && e.kind != kLit:
					c.addObl(st, "escape", fmt.Sprintf("#%d %s", c.kindOrd["escape"], what), ts.Implies(ts.And(g, flag), ts.And(ts.Not(ts.App("(_ is VStr)", SBool, e)), ts.Not(c.eng.tc.IsType(types.NewSlice(types.Universe.Lookup("byte").Type()), e)))), pos, "text of a Map value that may be a string formatted without escapeChars although XMLEscapeChars is on")
				case depends(e):
					c.addObl(st, "escape", fmt.Sprintf("#%d %s", c.kindOrd["escape"], what), ts.Implies(g, ts.Not(flag)), pos, "Map values formatted without escapeChars although XMLEscapeChars is on")
				}
			}
			for _, a := range t.args[1:] {
				val(a, guard)
			}
			return
		}
		n++
		c.addObl(st, "escape", fmt.Sprintf("#%d %s", c.kindOrd["escape"], what), ts.Implies(guard, ts.Not(flag)), pos, "text of a Map value written without escapeChars although XMLEscapeChars is on")
	}
	comp(w, ts.Bool(true))
}

func (c *FnCtx) resolveModifies(fr *Frame, st *State, text string, args []*Term) modTarget {
	ms := c.resolveModifiesAll(st, fr.fn, text, args)
	if len(ms) == 0 {
		return modTarget{}
	}
	return ms[0]
}

// resolveModifiesAll maps a modifies target to heap locations, evaluated in state st with the callee's arguments.
//   *p | p.f | global NAME | NAME (package var) | maps | map(p) | ghost NAME | all
func (c *FnCtx) resolveModifiesAll(st *State, fn *ssa.Function, text string, args []*Term) []modTarget {
	text = strings.TrimSpace(text)
	findParam := func(name string) (int, types.Type) {
		for i, p := range fn.Params {
			if p.Name() == name {
				return i, p.Type()
			}
		}
		return -1, nil
	}
	mapT := func(t types.Type, obj *Term) []modTarget {
		mh := c.mapHeaps(st, t)
		return []modTarget{{heap: mh.dom, obj: obj}, {heap: mh.sel, obj: obj}, {heap: mh.ln, obj: obj}}
	}
	switch {
	case text == "all":
		return []modTarget{{all: true}}
	case text == "maps":
		mt := types.NewMap(types.Typ[types.String], types.NewInterfaceType(nil, nil))
		return mapT(mt, nil)
	case strings.HasPrefix(text, "ghost "):
		name := "G:" + strings.TrimSpace(text[6:])
		if _, ok := c.eng.heapSorts[name]; !ok {
			c.eng.heapSorts[name] = ghostHeapSort(name)
		}
		return []modTarget{{heap: name}}
	case strings.HasPrefix(text, "map(*") && strings.HasSuffix(text, ")"):
		// the map a pointer parameter points to (at the time of the call)
		i, t := findParam(text[5 : len(text)-1])
		if i < 0 {
			unsupported("modifies: unknown parameter in %q of %s", text, fn)
		}
		pt := t.Underlying().(*types.Pointer).Elem()
		hn, hs := c.ptrHeapName(pt)
		return mapT(pt, c.hget(st, hn, hs, args[i]))
	case strings.HasPrefix(text, "map(") && strings.HasSuffix(text, ")"):
		i, t := findParam(text[4 : len(text)-1])
		if i < 0 {
			unsupported("modifies: unknown parameter in %q of %s", text, fn)
		}
		return mapT(t, args[i])
	case strings.HasPrefix(text, "*"):
		i, t := findParam(text[1:])
		if i < 0 {
			unsupported("modifies: unknown parameter in %q of %s", text, fn)
		}
		pt := t.Underlying().(*types.Pointer).Elem()
		if isStructNonOpaque(pt) {
			var out []modTarget
			stt := pt.Underlying().(*types.Struct)
			for f := 0; f < stt.NumFields(); f++ {
				hn, _ := c.fieldHeapName(pt, f)
				out = append(out, modTarget{heap: hn, obj: args[i]})
			}
			return out
		}
		if isOpaqueStruct(pt) {
			return opaqueModifies(c, pt, args[i])
		}
		hn, _ := c.ptrHeapName(pt)
		return []modTarget{{heap: hn, obj: args[i]}}
	case strings.Contains(text, "."):
		dot := strings.Index(text, ".")
		i, t := findParam(text[:dot])
		if i < 0 {
			unsupported("modifies: unknown parameter in %q of %s", text, fn)
		}
		pt := t.Underlying().(*types.Pointer).Elem()
		stt := pt.Underlying().(*types.Struct)
		for f := 0; f < stt.NumFields(); f++ {
			if stt.Field(f).Name() == text[dot+1:] {
				hn, _ := c.fieldHeapName(pt, f)
				return []modTarget{{heap: hn, obj: args[i]}}
			}
		}
		unsupported("modifies: unknown field in %q", text)
	default:
		name := strings.TrimSpace(strings.TrimPrefix(text, "global "))
		if g, ok := c.eng.ld.SSA.Members[name].(*ssa.Global); ok {
			return []modTarget{{global: g}}
		}
		unsupported("modifies: cannot resolve %q for %s", text, fn)
	}
	return nil
}

// ---- builtins ----

func (c *FnCtx) builtin(fr *Frame, st *State, x *ssa.Call, b *ssa.Builtin) {
	ts := c.eng.ts
	args := x.Call.Args
	switch b.Name() {
	case "len":
		at := args[0].Type()
		switch u := at.Underlying().(type) {
		case *types.Map:
			fr.regs[x] = c.mapLen(st, at, fr.val(args[0]).(*Term))
		case *types.Pointer:
			fr.regs[x] = ts.Int(u.Elem().Underlying().(*types.Array).Len())
		case *types.Chan:
			fr.regs[x] = ts.Fresh("chanlen", SInt)
		default:
			fr.regs[x] = ts.Len(fr.val(args[0]).(*Term))
		}
		if l, ok := fr.regs[x].(*Term); ok && l.kind != kLit {
			c.addFact(st, ts.And(ts.Le(ts.Int(0), l), ts.Le(l, ts.BigInt("72057594037927936"))))
		}
	case "cap":
		s := fr.val(args[0]).(*Term)
		r := ts.Fresh("cap", SInt)
		c.addFact(st, ts.Ge(r, ts.Len(s)))
		fr.regs[x] = r
	case "append":
		s := fr.val(args[0]).(*Term)
		t := fr.val(args[1]).(*Term)
		c.trusted["slices are immutable sequence values: append is concatenation; aliasing through spare capacity is not modelled"] = true
		r := ts.Concat(s, t)
		if r.sort != SString && r.kind == kApp && r.op == "seq.++" {
			// elements of a concatenation (instantiation lemmas for quantified invariants)
			bv := ts.Bound("j", SInt)
			c.addFactNth(st, r, ts.Quant("forall", bv, ts.Implies(ts.And(ts.Le(ts.Int(0), bv), ts.Lt(bv, ts.Len(s))), ts.Eq(ts.Nth(r, bv), ts.Nth(s, bv)))))
			bv2 := ts.Bound("j", SInt)
			c.addFactNth(st, r, ts.Quant("forall", bv2, ts.Implies(ts.And(ts.Le(ts.Len(s), bv2), ts.Lt(bv2, ts.Len(r))), ts.Eq(ts.Nth(r, bv2), ts.Nth(t, ts.Sub(bv2, ts.Len(s)))))))
		}
		fr.regs[x] = r
	case "copy":
		dst := fr.val(args[0]).(*Term)
		src := fr.val(args[1]).(*Term)
		o, ok := fr.origin[args[0]]
		if !ok || c.load(st, o) != dst {
			unsupported("copy into a slice whose variable is not known")
		}
		ld, ls := ts.Len(dst), ts.Len(src)
		n := ts.Ite(ts.Le(ld, ls), ld, ls)
		nd := ts.Concat(ts.Extract(src, ts.Int(0), n), ts.Extract(dst, n, ts.Sub(ld, n)))
		c.store(st, o, nd)
		fr.regs[x] = n
	case "delete":
		m := fr.val(args[0]).(*Term)
		mt := args[0].Type()
		k := c.toTerm(st, fr.val(args[1]), mt.Underlying().(*types.Map).Key())
		c.mapDelete(st, mt, m, k)
	case "print", "println":
	case "ssa:wrapnilchk":
		v := fr.val(args[0])
		fr.regs[x] = v
	case "ssa:deferstack":
		fr.regs[x] = ts.Int(0)
	case "panic":
		c.addObl(st, "panic", fmt.Sprintf("#%d", c.kindOrd["panic"]), ts.Bool(false), x.Pos(), "explicit panic reachable")
		st.pc = ts.Bool(false)
	case "recover":
		fr.regs[x] = ts.App("VNil", SVal)
	default:
		unsupported("builtin %s", b.Name())
	}
}

// inlineClosure inlines an anonymous ghost function with its captured variables.
func (c *FnCtx) inlineClosure(st *State, fn *ssa.Function, args []*Term, bindings []SymVal) []*Term {
	c.pendingBindings = bindings
	return c.inline(st, fn, args, true)
}

// sumIntrinsic: sums over the entries of a map, independent of the iteration order.
//   verifSumKeys(m, f, x, y)        = sum of f(k, m[k], x, y) over all keys k of m
//   verifSumVisited(loop, f, x, y)  = the same sum over the keys the loop-th range loop has delivered so far
// Both are the uninterpreted  psum!f(heaps, x, y, m, S)  for a key set S (the domain, resp. the ghost visited set); the
// defining equations are instantiated on the shape of S: the empty set gives 0, adding a key k that is not in the set
// adds f(k, m[k], x, y). On exhaustion of the range the visited set equals the domain (iteration model), so the two
// coincide. f must be a named top-level function (its name identifies the sum).
func (c *FnCtx) sumIntrinsic(fr *Frame, st *State, name string, cc *ssa.CallCommon) *Term {
	mt := types.NewMap(types.Typ[types.String], types.NewInterfaceType(nil, nil))
	mh := c.mapHeaps(st, mt)
	var m, set *Term
	fi := 1
	if name == "verifSumKeys" {
		m = fr.val(cc.Args[0]).(*Term)
		set = c.hget(st, mh.dom, mh.sdom, m)
	} else {
		k, ok := fr.val(cc.Args[0]).(*Term).IntLit()
		if !ok || c.curFrame == nil || c.curFrame.iterByLoop[int(k)] == nil {
			unsupported("verifSumVisited: no map-range loop #%v known at this point", fr.val(cc.Args[0]))
		}
		it := c.curFrame.iterByLoop[int(k)]
		m = it.m
		set = c.getCell(st, it.visited)
	}
	f, ok := fr.val(cc.Args[fi]).(*FuncVal)
	if !ok || f.fn == nil || len(f.bindings) > 0 {
		unsupported("%s: the summand must be a named top-level function", name)
	}
	x := c.toTerm(st, fr.val(cc.Args[fi+1]), cc.Args[fi+1].Type())
	ks := c.toTerm(st, fr.val(cc.Args[fi+2]), cc.Args[fi+2].Type())
	y := c.toTerm(st, fr.val(cc.Args[fi+3]), cc.Args[fi+3].Type())
	c.trusted["sums over the entries of a map (verifSumKeys / verifSumVisited) do not depend on the iteration order; defined by: empty set 0, adding an unvisited key adds its summand"] = true
	return c.psum(st, f.fn, x, ks, y, m, set, 0)
}

func (c *FnCtx) psum(st *State, fn *ssa.Function, x, ks, y, m, set *Term, depth int) *Term {
	ts := c.eng.ts
	if set.kind == kApp && set.op == "ite" && depth < 6 {
		return ts.Ite(set.args[0], c.psum(st, fn, x, ks, y, m, set.args[1], depth+1), c.psum(st, fn, x, ks, y, m, set.args[2], depth+1))
	}
	mt := types.NewMap(types.Typ[types.String], types.NewInterfaceType(nil, nil))
	mh := c.mapHeaps(st, mt)
	hd, hs, hl := c.heap(st, mh.dom, mh.sdom), c.heap(st, mh.sel, mh.ssel), c.heap(st, mh.ln, mh.sln)
	t := ts.UF("psum!"+fn.Name(), SInt, hd, hs, hl, x, ks, y, m, set)
	if c.specSeen == nil {
		c.specSeen = map[string]bool{}
		c.specDepth = map[*ssa.Function]int{}
	}
	key := fmt.Sprintf("psum@%d", t.id)
	if c.specSeen[key] || len(ts.FreeBoundVars(t)) > 0 {
		return t
	}
	c.specSeen[key] = true
	neutral := &State{pc: ts.Bool(true)}
	switch {
	case set.kind == kApp && strings.HasPrefix(set.op, "(as const") && len(set.args) == 1 && set.args[0].IsFalse():
		c.addFactT(neutral, t, ts.Eq(t, ts.Int(0)))
	case set.kind == kApp && set.op == "store" && set.args[2].IsTrue() && depth < 6:
		s0, k := set.args[0], set.args[1]
		rest := c.psum(st, fn, x, ks, y, m, s0, depth+1)
		work := st.clone()
		work.pc = ts.Bool(true)
		v := ts.Select(ts.Select(hs, m), k)
		saved := c.curTag
		c.curTag = 2
		c.noObl++
		fv := c.inline(work, fn, []*Term{k, v, x, ks, y}, true)
		c.noObl--
		c.curTag = saved
		c.addFactT(neutral, t, ts.Eq(t, ts.Add(rest, ts.Ite(ts.Select(s0, k), ts.Int(0), fv[0]))))
	}
	return t
}

// quantifier: verifForall(n, func(i int) bool { ... })  ==  forall i. 0 <= i < n  =>  body(i)
func (c *FnCtx) quantifier(fr *Frame, st *State, universal bool, n *Term, fv SymVal) *Term {
	ts := c.eng.ts
	f, ok := fv.(*FuncVal)
	if !ok || f.fn == nil {
		unsupported("quantifier body must be a function literal")
	}
	bv := ts.BoundNamed(fmt.Sprintf("i!%s!%d", f.fn.Name(), c.qdepth), SInt)
	c.qdepth++
	defer func() { c.qdepth-- }()
	work := st.clone()
	// the body is evaluated for an index in range: facts generated inside are guarded by the range
	work.pc = ts.And(st.pc, ts.Le(ts.Int(0), bv), ts.Lt(bv, n))
	nf := len(c.facts)
	c.noObl++
	var body []*Term
	if len(f.bindings) > 0 {
		body = c.inlineClosure(work, f.fn, []*Term{bv}, f.bindings)
	} else {
		body = c.inline(work, f.fn, []*Term{bv}, true)
	}
	c.noObl--
	// facts generated while evaluating the body may mention the bound variable: they hold for every index in
	// range, so they are re-stated as separate universally quantified facts (polarity independent)
	rng := ts.And(ts.Le(ts.Int(0), bv), ts.Lt(bv, n))
	_ = nf // facts generated inside were closed over the bound variable by addFact (guarded by the range)
	if universal {
		return ts.Quant("forall", bv, ts.Implies(rng, body[0]))
	}
	b := ts.And(rng, body[0])
	return ts.Quant("exists", bv, b)
}

// quantifierKeys: verifForallKeys(m, func(k string, v interface{}) bool {...}) == forall k. k in dom(m) => body(k, m[k])
func (c *FnCtx) quantifierKeys(fr *Frame, st *State, mt types.Type, m *Term, fv SymVal) *Term {
	ts := c.eng.ts
	f, ok := fv.(*FuncVal)
	if !ok || f.fn == nil {
		unsupported("quantifier body must be a function literal")
	}
	mh := c.mapHeaps(st, mt)
	bv := ts.BoundNamed(fmt.Sprintf("k!%s!%d", f.fn.Name(), c.qdepth), mh.ks)
	c.qdepth++
	defer func() { c.qdepth-- }()
	dom := ts.Select(c.hget(st, mh.dom, mh.sdom, m), bv)
	val := ts.Select(c.hget(st, mh.sel, mh.ssel, m), bv)
	work := st.clone()
	work.pc = ts.And(st.pc, dom)
	c.noObl++
	var body []*Term
	if len(f.bindings) > 0 {
		body = c.inlineClosure(work, f.fn, []*Term{bv, val}, f.bindings)
	} else {
		body = c.inline(work, f.fn, []*Term{bv, val}, true)
	}
	c.noObl--
	return ts.Quant("forall", bv, ts.Implies(dom, body[0]))
}

func (e *Engine) registerMapHeaps(t types.Type) {
	mt := t.Underlying().(*types.Map)
	k := typeKey(mt)
	ks, vs := e.tc.SortOf(mt.Key()), e.tc.SortOf(mt.Elem())
	e.heapSorts["Mdom:"+k] = ArrOf(SInt, ArrOf(ks, SBool))
	e.heapSorts["Msel:"+k] = ArrOf(SInt, ArrOf(ks, vs))
	e.heapSorts["Mlen:"+k] = ArrOf(SInt, SInt)
}

// pureSummary: uninterpreted function application standing for the results of a pure function.
func (c *FnCtx) pureSummary(st *State, fn *ssa.Function, args []*Term) []*Term {
	ts := c.eng.ts
	// conservatively a function of: the Map heaps, every scalar package variable of the package (the options), the arguments
	c.eng.registerMapHeaps(types.NewMap(types.Typ[types.String], types.NewInterfaceType(nil, nil)))
	var uargs []*Term
	for _, h := range []string{"Mdom:map[string]interface{}", "Msel:map[string]interface{}", "Mlen:map[string]interface{}"} {
		uargs = append(uargs, c.heap(st, h, c.eng.heapSorts[h]))
	}
	var gs []*ssa.Global
	for _, m := range fn.Pkg.Members {
		if g, ok := m.(*ssa.Global); ok && !strings.Contains(g.Name(), "$") {
			if _, basic := g.Type().(*types.Pointer).Elem().Underlying().(*types.Basic); basic {
				gs = append(gs, g)
			}
		}
	}
	sort.Slice(gs, func(i, j int) bool { return gs[i].Name() < gs[j].Name() })
	for _, g := range gs {
		uargs = append(uargs, c.getCell(st, c.eng.globalCell(g)))
	}
	uargs = append(uargs, args...)
	n := fn.Signature.Results().Len()
	out := make([]*Term, n)
	for i := 0; i < n; i++ {
		out[i] = ts.UF(fmt.Sprintf("pure!%s!%d", sanitize(fn.RelString(fn.Pkg.Pkg)), i), c.eng.tc.SortOf(fn.Signature.Results().At(i).Type()), uargs...)
	}
	return out
}
