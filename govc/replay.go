package main

// Replay of solver counterexamples against the real code (go test -overlay; nothing is written into /repo).

func tryReplay(o *Obligation, repo, scratch string) (string, bool) {
	return "replay not available for this obligation kind; model:\n" + firstLines(o.Model, 60), false
}

func propExplanation(prop string) string {
	if s, ok := explanations[prop]; ok {
		return s
	}
	return ""
}

var explanations = map[string]string{}
