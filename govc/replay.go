package main

// Replay of solver counterexamples against the real code: the model's input part is concretised into Go
// literals, an in-package test is generated and run with `go test -overlay` (nothing is written into /repo).

import (
	"bytes"
	"context"
	"encoding/json"
	"fmt"
	"go/types"
	"os"
	"os/exec"
	"path/filepath"
	"sort"
	"strconv"
	"strings"
	"time"

	"golang.org/x/tools/go/ssa"
)

// ---- s-expressions ----

type sexp struct {
	atom string
	list []*sexp
	isStr bool
}

func parseSexps(s string) []*sexp {
	var out []*sexp
	i := 0
	var parse func() *sexp
	skip := func() {
		for i < len(s) && (s[i] == ' ' || s[i] == '\n' || s[i] == '\t' || s[i] == '\r') {
			i++
		}
	}
	parse = func() *sexp {
		skip()
		if i >= len(s) {
			return nil
		}
		switch s[i] {
		case '(':
			i++
			n := &sexp{list: []*sexp{}}
			for {
				skip()
				if i >= len(s) {
					return n
				}
				if s[i] == ')' {
					i++
					return n
				}
				c := parse()
				if c == nil {
					return n
				}
				n.list = append(n.list, c)
			}
		case '"':
			j := i + 1
			for j < len(s) {
				if s[j] == '"' {
					if j+1 < len(s) && s[j+1] == '"' {
						j += 2
						continue
					}
					break
				}
				j++
			}
			a := s[i : j+1]
			i = j + 1
			return &sexp{atom: a, isStr: true}
		case '|':
			j := strings.IndexByte(s[i+1:], '|')
			a := s[i : i+j+2]
			i += j + 2
			return &sexp{atom: a}
		default:
			j := i
			for j < len(s) && !strings.ContainsRune(" \n\t\r()", rune(s[j])) {
				j++
			}
			a := s[i:j]
			i = j
			return &sexp{atom: a}
		}
	}
	for {
		skip()
		if i >= len(s) {
			break
		}
		if s[i] == ')' {
			i++
			continue
		}
		e := parse()
		if e == nil {
			break
		}
		out = append(out, e)
	}
	return out
}

func (e *sexp) String() string {
	if e.list == nil {
		return e.atom
	}
	var ps []string
	for _, c := range e.list {
		ps = append(ps, c.String())
	}
	return "(" + strings.Join(ps, " ") + ")"
}

func (e *sexp) head() string {
	if e.list != nil && len(e.list) > 0 && e.list[0].list == nil {
		return e.list[0].atom
	}
	return ""
}

func sexpInt(e *sexp) (int64, bool) {
	if e.list == nil {
		v, err := strconv.ParseInt(e.atom, 10, 64)
		return v, err == nil
	}
	if e.head() == "-" && len(e.list) == 2 {
		v, ok := sexpInt(e.list[1])
		return -v, ok
	}
	return 0, false
}

// seqElems flattens a sequence value.
func seqElems(e *sexp) []*sexp {
	if e.list == nil {
		return nil
	}
	switch e.head() {
	case "seq.++", "str.++":
		var out []*sexp
		for _, c := range e.list[1:] {
			out = append(out, seqElems(c)...)
		}
		return out
	case "seq.unit":
		return []*sexp{e.list[1]}
	case "as":
		return nil // (as seq.empty ...)
	}
	return nil
}

// ---- model ----

type modelCtx struct {
	c      *FnCtx
	vals   map[int]*sexp // term id -> value
	floats map[string]float64
	warn   []string
	opaque int
}

// replayTerms lists the terms whose values are needed to rebuild the inputs.
func (c *FnCtx) replayTerms() []*Term {
	var out []*Term
	seen := map[int]bool{}
	add := func(t *Term) {
		if t != nil && !seen[t.id] && t.kind != kLit {
			seen[t.id] = true
			out = append(out, t)
		}
	}
	for _, in := range c.inputs {
		add(in)
	}
	for _, r := range c.mapReads {
		add(r.m)
		add(r.k)
		add(r.ok)
		add(r.val)
		add(r.ln)
	}
	for _, r := range c.ptrReads {
		add(r.obj)
		add(r.val)
	}
	for _, g := range c.globalReads {
		add(g.init)
	}
	return out
}

type mapRead struct {
	mt             types.Type
	m, k, ok, val, ln *Term
}
type ptrRead struct {
	heap     string
	obj, val *Term
}

func parseModel(c *FnCtx, terms []*Term, output string) *modelCtx {
	mc := &modelCtx{c: c, vals: map[int]*sexp{}, floats: map[string]float64{}}
	// output: first line sat, then ((t v) (t v) ...)
	idx := -1
	if strings.HasPrefix(output, "((") {
		idx = 0
	} else if j := strings.Index(output, "\n(("); j >= 0 {
		idx = j + 1
	}
	if idx < 0 {
		return mc
	}
	es := parseSexps(output[idx:])
	if len(es) == 0 || es[0].list == nil {
		return mc
	}
	pairs := es[0].list
	for i, p := range pairs {
		if i >= len(terms) || p.list == nil || len(p.list) != 2 {
			break
		}
		mc.vals[terms[i].id] = p.list[1]
	}
	return mc
}

func (mc *modelCtx) val(t *Term) *sexp {
	if t == nil {
		return nil
	}
	if t.kind == kLit {
		return &sexp{atom: t.op, isStr: t.sort == SString}
	}
	return mc.vals[t.id]
}

func goString(e *sexp) string {
	if e == nil {
		return `""`
	}
	if e.isStr {
		return strconv.Quote(unquoteSMT(e.atom))
	}
	// str.++ of pieces
	if e.list != nil && e.head() == "str.++" {
		var sb strings.Builder
		for _, c := range e.list[1:] {
			if c.isStr {
				sb.WriteString(unquoteSMT(c.atom))
			}
		}
		return strconv.Quote(sb.String())
	}
	return `""`
}

// goValue renders a model value of Go type t as a Go expression.
func (mc *modelCtx) goValue(t types.Type, e *sexp, depth int) string {
	qual := types.RelativeTo(mc.c.eng.ld.Pkg)
	ts := types.TypeString(t, qual)
	if e == nil {
		return "*new(" + ts + ")"
	}
	switch u := t.Underlying().(type) {
	case *types.Basic:
		switch {
		case u.Info()&types.IsString != 0:
			return ts + "(" + goString(e) + ")"
		case u.Info()&types.IsBoolean != 0:
			return ts + "(" + e.atom + ")"
		case u.Info()&types.IsInteger != 0:
			v, _ := sexpInt(e)
			return ts + "(" + strconv.FormatInt(v, 10) + ")"
		case u.Info()&types.IsFloat != 0:
			return ts + "(" + mc.float(e) + ")"
		}
	case *types.Interface:
		return mc.goIface(e, depth)
	case *types.Slice:
		if isByte(u.Elem()) {
			return ts + "(" + goString(e) + ")"
		}
		var parts []string
		for _, el := range seqElems(e) {
			parts = append(parts, mc.goValue(u.Elem(), el, depth+1))
		}
		return ts + "{" + strings.Join(parts, ", ") + "}"
	case *types.Array:
		var parts []string
		for _, el := range seqElems(e) {
			parts = append(parts, mc.goValue(u.Elem(), el, depth+1))
		}
		return ts + "{" + strings.Join(parts, ", ") + "}"
	case *types.Map:
		id, _ := sexpInt(e)
		return mc.goMap(t, id, depth)
	case *types.Pointer:
		id, _ := sexpInt(e)
		if id == 0 {
			return "(" + ts + ")(nil)"
		}
		return mc.goPointer(u, id, depth)
	case *types.Signature:
		id, _ := sexpInt(e)
		if id == 0 {
			return "(" + ts + ")(nil)"
		}
		mc.warn = append(mc.warn, "function value in model replaced by nil")
		return "(" + ts + ")(nil)"
	case *types.Struct:
		// (mk!S f0 f1 ...)
		if e.list != nil && len(e.list) == u.NumFields()+1 {
			var parts []string
			for i := 0; i < u.NumFields(); i++ {
				parts = append(parts, u.Field(i).Name()+": "+mc.goValue(u.Field(i).Type(), e.list[i+1], depth+1))
			}
			return ts + "{" + strings.Join(parts, ", ") + "}"
		}
	}
	mc.warn = append(mc.warn, "cannot concretise value of type "+ts+": "+e.String())
	return "*new(" + ts + ")"
}

func (mc *modelCtx) float(e *sexp) string {
	k := e.String()
	if v, ok := mc.floats[k]; ok {
		return strconv.FormatFloat(v, 'g', -1, 64)
	}
	v := 1.5 + float64(len(mc.floats))
	mc.floats[k] = v
	return strconv.FormatFloat(v, 'g', -1, 64)
}

func (mc *modelCtx) goIface(e *sexp, depth int) string {
	if e.list == nil {
		if e.atom == "VNil" {
			return "interface{}(nil)"
		}
		return "interface{}(nil)"
	}
	if depth > 6 {
		return "interface{}(nil)"
	}
	switch e.head() {
	case "VStr":
		return "interface{}(" + goString(e.list[1]) + ")"
	case "VBool":
		return "interface{}(" + e.list[1].atom + ")"
	case "VInt":
		v, _ := sexpInt(e.list[1])
		return fmt.Sprintf("interface{}(int(%d))", v)
	case "VI64":
		v, _ := sexpInt(e.list[1])
		return fmt.Sprintf("interface{}(int64(%d))", v)
	case "VU64":
		v, _ := sexpInt(e.list[1])
		if v < 0 {
			v = 0
		}
		return fmt.Sprintf("interface{}(uint64(%d))", v)
	case "VF64":
		return "interface{}(float64(" + mc.float(e.list[1]) + "))"
	case "VMap":
		id, _ := sexpInt(e.list[1])
		return "interface{}(" + mc.goMap(types.NewMap(types.Typ[types.String], types.NewInterfaceType(nil, nil)), id, depth+1) + ")"
	case "VList":
		var parts []string
		for _, el := range seqElems(e.list[1]) {
			parts = append(parts, mc.goIface(el, depth+1))
		}
		return "interface{}([]interface{}{" + strings.Join(parts, ", ") + "})"
	case "VBox":
		tid, _ := sexpInt(e.list[1])
		payload, _ := sexpInt(e.list[2])
		if t, ok := mc.c.eng.tc.tidTypes[int(tid)]; ok {
			qual := types.RelativeTo(mc.c.eng.ld.Pkg)
			if _, isMap := t.Underlying().(*types.Map); isMap {
				return "interface{}(" + types.TypeString(t, qual) + "(" + mc.goMap(t.Underlying(), payload, depth+1) + "))"
			}
			if b, isB := t.Underlying().(*types.Basic); isB && b.Info()&types.IsInteger != 0 {
				return fmt.Sprintf("interface{}(%s(%d))", types.TypeString(t, qual), payload)
			}
		}
		mc.opaque++
		return fmt.Sprintf("interface{}(verifOpaque(%d))", mc.opaque)
	}
	return "interface{}(nil)"
}

// goMap rebuilds the map object with the given id from the lookups recorded while generating the VC.
func (mc *modelCtx) goMap(t types.Type, id int64, depth int) string {
	qual := types.RelativeTo(mc.c.eng.ld.Pkg)
	ts := types.TypeString(t, qual)
	if id == 0 {
		return ts + "(nil)"
	}
	mt := t.Underlying().(*types.Map)
	entries := map[string]string{}
	var wantLen int64 = -1
	for _, r := range mc.c.mapReads {
		if typeKey(r.mt.Underlying()) != typeKey(mt) {
			continue
		}
		mv := mc.val(r.m)
		if mv == nil {
			continue
		}
		if v, ok := sexpInt(mv); !ok || v != id {
			continue
		}
		if r.ln != nil {
			if lv := mc.val(r.ln); lv != nil {
				if n, ok := sexpInt(lv); ok && n > wantLen {
					wantLen = n
				}
			}
		}
		if r.k == nil {
			continue
		}
		okv := mc.val(r.ok)
		if okv == nil || okv.atom != "true" {
			continue
		}
		kexpr := mc.goValue(mt.Key(), mc.val(r.k), depth+1)
		if _, dup := entries[kexpr]; dup {
			continue
		}
		if depth > 6 {
			entries[kexpr] = "nil"
			continue
		}
		entries[kexpr] = mc.goValue(mt.Elem(), mc.val(r.val), depth+1)
	}
	var ks []string
	for k := range entries {
		ks = append(ks, k)
	}
	sort.Strings(ks)
	var parts []string
	for _, k := range ks {
		parts = append(parts, k+": "+entries[k])
	}
	// honour the length demanded by the model with dummy keys
	if _, isStr := mt.Key().Underlying().(*types.Basic); isStr && wantLen > int64(len(parts)) && wantLen < 64 {
		for i := int64(len(parts)); i < wantLen; i++ {
			parts = append(parts, fmt.Sprintf("%q: %s", fmt.Sprintf("verif_dummy_%d", i), mc.goValue(mt.Elem(), nil, depth+1)))
		}
	}
	return ts + "{" + strings.Join(parts, ", ") + "}"
}

func (mc *modelCtx) goPointer(pt *types.Pointer, id int64, depth int) string {
	qual := types.RelativeTo(mc.c.eng.ld.Pkg)
	el := pt.Elem()
	els := types.TypeString(el, qual)
	if isOpaqueStruct(el) {
		mc.warn = append(mc.warn, "pointer to opaque "+els+" replaced by new value")
		return "new(" + els + ")"
	}
	if st, ok := el.Underlying().(*types.Struct); ok {
		var parts []string
		for i := 0; i < st.NumFields(); i++ {
			hn := "F:" + typeKey(el) + "." + st.Field(i).Name()
			for _, r := range mc.c.ptrReads {
				if r.heap != hn {
					continue
				}
				if ov := mc.val(r.obj); ov != nil {
					if v, ok := sexpInt(ov); ok && v == id {
						parts = append(parts, st.Field(i).Name()+": "+mc.goValue(st.Field(i).Type(), mc.val(r.val), depth+1))
						break
					}
				}
			}
		}
		return "&" + els + "{" + strings.Join(parts, ", ") + "}"
	}
	hn := "P:" + typeKey(el)
	for _, r := range mc.c.ptrReads {
		if r.heap != hn {
			continue
		}
		if ov := mc.val(r.obj); ov != nil {
			if v, ok := sexpInt(ov); ok && v == id {
				return "verifPtr_" + sanitizeIdent(els) + "(" + mc.goValue(el, mc.val(r.val), depth+1) + ")"
			}
		}
	}
	return "new(" + els + ")"
}

func sanitizeIdent(s string) string {
	var sb strings.Builder
	for _, c := range s {
		if (c >= 'a' && c <= 'z') || (c >= 'A' && c <= 'Z') || (c >= '0' && c <= '9') {
			sb.WriteRune(c)
		} else {
			sb.WriteByte('_')
		}
	}
	return sb.String()
}

// ---- test generation ----

func tryReplay(o *Obligation, repo, scratch string) (string, bool) {
	c := o.Ctx
	if c == nil || c.top == nil {
		return "no context for replay", false
	}
	fn := c.top
	if fn.Name() == "init" || c.eng.isGhostFn(fn) {
		return "replay not applicable: " + fn.Name() + " is not callable from a test; model:\n" + firstLines(o.Model, 40), false
	}
	opaqueParam := false
	for _, p := range fn.Params {
		if pt, ok := p.Type().Underlying().(*types.Pointer); ok && isOpaqueStruct(pt.Elem()) {
			opaqueParam = true
		}
		if it, ok := p.Type().Underlying().(*types.Interface); ok && it.NumMethods() > 0 {
			opaqueParam = true
		}
	}
	if opaqueParam {
		return replayVia(o, repo, scratch)
	}
	terms := c.replayTerms()
	// re-run the winning solver asking for the values of all replay terms
	out := o.Model
	if o.SMTFile != "" && len(terms) > 0 {
		if r := rerunForValues(o, terms, scratch); r != "" {
			out = r
		}
	}
	mc := parseModel(c, terms, out)
	var sb strings.Builder
	pkg := c.eng.ld.Pkg
	qual := types.RelativeTo(pkg)
	sb.WriteString("//go:build verif\n// +build verif\n\npackage " + pkg.Name() + "\n\nimport (\n\t\"fmt\"\n\t\"testing\"\n)\n\n")
	sb.WriteString("type verifOpaque int\n\n")
	ptrHelpers := map[string]string{}
	// inputs
	var argExprs []string
	var decls []string
	for i, p := range fn.Params {
		var v *sexp
		if i < len(c.inputs) {
			v = mc.val(c.inputs[i])
		}
		expr := mc.goValue(p.Type(), v, 0)
		name := fmt.Sprintf("in%d", i)
		decls = append(decls, fmt.Sprintf("\t%s := %s // %s", name, expr, paramName(p, i)))
		argExprs = append(argExprs, name)
	}
	// pointer helper functions used
	all := strings.Join(decls, "\n")
	for _, p := range fn.Params {
		collectPtrHelpers(p.Type(), qual, ptrHelpers)
	}
	var hk []string
	for k := range ptrHelpers {
		hk = append(hk, k)
	}
	sort.Strings(hk)
	for _, k := range hk {
		if strings.Contains(all, k+"(") {
			sb.WriteString(ptrHelpers[k])
		}
	}
	// option globals
	var gsets []string
	for _, g := range c.globalReads {
		if g.global == nil || g.global.Pkg == nil || g.global.Pkg.Pkg != pkg {
			continue
		}
		if strings.Contains(g.global.Name(), "$") {
			continue
		}
		v := mc.val(g.init)
		if v == nil {
			continue
		}
		switch g.typ.Underlying().(type) {
		case *types.Basic:
			if strings.Contains(types.TypeString(g.typ, qual), ".") {
				continue // a named type of another package (time.Duration): not an option
			}
			gsets = append(gsets, fmt.Sprintf("\t{ old := %s; %s = %s; defer func() { %s = old }() }", g.global.Name(), g.global.Name(), mc.goValue(g.typ, v, 0), g.global.Name()))
		}
	}
	sort.Strings(gsets)
	sb.WriteString("func TestVerifReplay(t *testing.T) {\n")
	sb.WriteString(strings.Join(gsets, "\n") + "\n")
	sb.WriteString(all + "\n")
	sb.WriteString("\tdefer func() {\n\t\tif r := recover(); r != nil {\n\t\t\tfmt.Printf(\"VERIF-REPLAY outcome=panic value=%v\\n\", r)\n\t\t}\n\t}()\n")
	// call
	call := ""
	sig := fn.Signature
	if sig.Recv() != nil {
		call = fmt.Sprintf("%s.%s(%s)", argExprs[0], fn.Name(), callArgs(sig, argExprs[1:]))
	} else {
		call = fmt.Sprintf("%s(%s)", fn.Name(), callArgs(sig, argExprs))
	}
	// inputs that do not satisfy the (executable) preconditions prove nothing: stop before the call
	if c.fc != nil {
		for _, rq := range c.fc.Requires {
			if usesGhostIntrinsic(rq.Expr) {
				continue
			}
			sb.WriteString(fmt.Sprintf("\tif !%s(%s) {\n\t\tfmt.Printf(\"VERIF-REPLAY outcome=requires-not-met // %s\\n\")\n\t\treturn\n\t}\n", rq.Fn, strings.Join(argExprs, ", "), strings.ReplaceAll(rq.Raw, "\"", "'")))
		}
	}
	var oldNames []string
	if (o.Kind == "post" || o.Kind == "inv-step" || o.Kind == "inv-init") && c.fc != nil {
		for i, od := range c.fc.Olds {
			if usesGhostIntrinsic(od.Expr) {
				oldNames = nil
				break
			}
			nm := fmt.Sprintf("old%d", i)
			sb.WriteString(fmt.Sprintf("\t%s := %s(%s)\n\t_ = %s\n", nm, od.Fn, strings.Join(argExprs, ", "), nm))
			oldNames = append(oldNames, nm)
		}
	}
	nres := sig.Results().Len()
	var resNames []string
	for i := 0; i < nres; i++ {
		resNames = append(resNames, fmt.Sprintf("out%d", i))
	}
	if nres > 0 {
		sb.WriteString("\t" + strings.Join(resNames, ", ") + " := " + call + "\n")
		for _, r := range resNames {
			sb.WriteString(fmt.Sprintf("\tfmt.Printf(\"VERIF-REPLAY %s=%%#v\\n\", %s)\n", r, r))
		}
	} else {
		sb.WriteString("\t" + call + "\n")
	}
	// evaluate postconditions that are executable (no ghost intrinsics)
	if (o.Kind == "post" || o.Kind == "inv-step" || o.Kind == "inv-init") && c.fc != nil && len(oldNames) == len(c.fc.Olds) {
		for i, en := range c.fc.Ensures {
			if usesGhostIntrinsic(en.Expr) {
				continue
			}
			args := append(append([]string{}, argExprs...), resNames...)
			args = append(args, oldNames...)
			sb.WriteString(fmt.Sprintf("\tfmt.Printf(\"VERIF-REPLAY ensures%d=%%v // %s\\n\", %s(%s))\n", i, strings.ReplaceAll(en.Raw, "\"", "'"), en.Fn, strings.Join(args, ", ")))
		}
	}
	sb.WriteString("\tfmt.Printf(\"VERIF-REPLAY outcome=returned\\n\")\n}\n")
	testSrc := sb.String()
	res := runReplayTest(c, repo, scratch, testSrc)
	reproduced := replayReproduced(o, res)
	var rep strings.Builder
	fmt.Fprintf(&rep, "solver model (inputs):\n%s\n", firstLines(out, 30))
	for _, w := range mc.warn {
		fmt.Fprintf(&rep, "note: %s\n", w)
	}
	fmt.Fprintf(&rep, "\ngenerated test (run in the package directory with go test -tags verif -overlay ... -run '^TestVerifReplay$'):\n%s\n", testSrc)
	fmt.Fprintf(&rep, "test output:\n%s\n", firstLines(res, 40))
	if !reproduced {
		// The model's inputs did not reproduce (callee results and loop states in the model are abstract).
		// Second stage: search a small fixed corpus of inputs for one that makes the real code fail the same way.
		if src2 := corpusTest(o, argExprs, gsets, ptrHelpers); src2 != "" {
			res2 := runReplayTest(c, repo, scratch, src2)
			if replayReproduced(o, res2) {
				reproduced = true
				fmt.Fprintf(&rep, "\nmodel inputs did not reproduce; corpus search over concrete inputs found a failing input:\n%s\n", firstLines(grepLines(res2, "VERIF-REPLAY"), 12))
				fmt.Fprintf(&rep, "\ncorpus test:\n%s\n", src2)
			} else {
				fmt.Fprintf(&rep, "\ncorpus search over concrete inputs: no failing input found\n%s\n", firstLines(grepLines(res2, "VERIF-REPLAY|FAIL|panic"), 6))
			}
		}
	}
	if !reproduced && c.fc != nil && len(c.fc.ReplayVia) > 0 {
		t, ok := replayVia(o, repo, scratch)
		rep.WriteString("\n--- replay through public entry points ---\n" + t)
		return rep.String(), ok
	}
	fmt.Fprintf(&rep, "REPRODUCED=%v\n", reproduced)
	return rep.String(), reproduced
}

func grepLines(s, pat string) string {
	var out []string
	alts := strings.Split(pat, "|")
	for _, l := range strings.Split(s, "\n") {
		for _, a := range alts {
			if strings.Contains(l, a) {
				out = append(out, l)
				break
			}
		}
	}
	return strings.Join(out, "\n")
}

func replayReproduced(o *Obligation, res string) bool {
	switch o.Kind {
	case "post", "inv-step", "inv-init":
		return strings.Contains(res, "=false //") || strings.Contains(res, "outcome=panic")
	case "frame-heap", "frame-global":
		return strings.Contains(res, "outcome=modified")
	default:
		return strings.Contains(res, "outcome=panic") || strings.Contains(res, "panic:") || strings.Contains(res, "fatal error:")
	}
}

func runReplayTest(c *FnCtx, repo, scratch, testSrc string) string {
	pkg := c.eng.ld.Pkg
	// the replayed code may create files (file writers called with corpus strings as path): run it inside a
	// temporary working directory, never in the package directory of /repo
	testSrc = strings.Replace(testSrc, "func TestVerifReplay(t *testing.T) {\n", "func TestVerifReplay(t *testing.T) {\n\tverifSandbox(t)\n", 1)
	testFile := filepath.Join(scratch, fmt.Sprintf("replay_%d_test.go", time.Now().UnixNano()))
	os.WriteFile(testFile, []byte(testSrc), 0o644)
	sandboxFile := filepath.Join(scratch, "sandbox_test.go")
	os.WriteFile(sandboxFile, []byte("//go:build verif\n// +build verif\n\npackage "+pkg.Name()+"\n\nimport (\n\t\"os\"\n\t\"testing\"\n)\n\nfunc verifSandbox(t *testing.T) {\n\tdir := t.TempDir()\n\told, _ := os.Getwd()\n\tos.Chdir(dir)\n\tt.Cleanup(func() { os.Chdir(old) })\n}\n"), 0o644)
	ghostFile := filepath.Join(scratch, "ghost_gen.go")
	os.WriteFile(ghostFile, []byte("//go:build verif\n// +build verif\n\n"+c.eng.ld.GhostSrc), 0o644)
	pkgDir := repo
	if rel := strings.TrimPrefix(pkg.Path(), modPath); rel != "" {
		pkgDir = filepath.Join(repo, rel)
	}
	ov := map[string]map[string]string{"Replace": {
		filepath.Join(pkgDir, "zz_verif_replay_test.go"):     testFile,
		filepath.Join(pkgDir, "zz_verif_sandbox_test.go"):    sandboxFile,
		filepath.Join(pkgDir, "zz_verif_ghost_generated.go"): ghostFile,
	}}
	ovb, _ := json.Marshal(ov)
	ovFile := filepath.Join(scratch, fmt.Sprintf("overlay-%d.json", time.Now().UnixNano()))
	os.WriteFile(ovFile, ovb, 0o644)
	ctx, cancel := context.WithTimeout(context.Background(), 180*time.Second)
	defer cancel()
	cmd := exec.CommandContext(ctx, "go", "test", "-tags", "verif", "-overlay", ovFile, "-vet=off", "-count=1", "-v", "-timeout", "60s", "-run", "^TestVerifReplay$", ".")
	cmd.Dir = pkgDir
	cmd.Env = goEnv()
	var buf bytes.Buffer
	cmd.Stdout = &buf
	cmd.Stderr = &buf
	cmd.Run()
	return buf.String()
}

// ---- corpus search: concrete candidate inputs per parameter type ----

func corpusFor(t types.Type, qual types.Qualifier) []string {
	ts := types.TypeString(t, qual)
	sample := `map[string]interface{}{"a": map[string]interface{}{"b": "x", "-id": "1", "#text": "t", "c": []interface{}{map[string]interface{}{"d": "1"}, "s", float64(2)}}, "": "e", "n": nil, "l": []interface{}{"p", "q"}, "k": "v", "f": float64(1.5), "t": true}`
	switch u := t.Underlying().(type) {
	case *types.Basic:
		switch {
		case u.Info()&types.IsString != 0:
			var out []string
			for _, s := range []string{"", "+Inf", "Infinity", "-infinity", "NaN", "1e999", "9223372036854775808", "18446744073709551615", "-9223372036854775808", "0x1p-2", "TRUE", "1", "12", "-0", "a", " k", "k ", " k:x", "a.b", "a.c", "a.b.x", "k", "l", "*", "a.*", "a.c[0]", "a.c[9]", "a.c[0].d", "l[1]", ".", "a.", ".a", "a..b", "[", "a[", "a[]", "a[x]", "a[9223372036854775807]", "a[2147483647]", ":", ":x", "a:", "a:b", "a:b:c", "a:b:bool", "a:1:float", "!a:*", "a:b:c:d", "k:v", "-id:1", "x:y", "k:new", "b:new", "a.b:q", "n", "n.x", "k.x", "t.x", "#text", "-id"} {
				out = append(out, ts+"("+strconv.Quote(s)+")")
			}
			return out
		case u.Info()&types.IsBoolean != 0:
			return []string{ts + "(false)", ts + "(true)"}
		case u.Info()&types.IsInteger != 0:
			return []string{ts + "(0)", ts + "(1)", ts + "(-1)", ts + "(2)", ts + "(64)"}
		case u.Info()&types.IsFloat != 0:
			return []string{ts + "(0)", ts + "(1.5)"}
		}
	case *types.Pointer:
		if _, ok := u.Elem().Underlying().(*types.Basic); ok {
			return []string{"new(" + types.TypeString(u.Elem(), qual) + ")"}
		}
	case *types.Interface:
		if ts == "io.Reader" {
			var out []string
			for _, d := range []string{"}", "{\"a\":1}", "", "{", "<a>1</a>", "</a>", "x<a/>", "{\"a\":\"x\\\\\"}{\"b\":2}", "<a>h<b/></a>", " {\"a\":1} {\"b\":2}", "<a/><b/>"} {
				out = append(out, "io.Reader(strings.NewReader("+strconv.Quote(d)+"))")
				out = append(out, "io.Reader(&verifSchedReader{data: []byte("+strconv.Quote(d)+"), eofWithData: true})")
				out = append(out, "io.Reader(&verifSchedReader{data: []byte("+strconv.Quote(d)+"), zeroReads: true})")
			}
			return out
		}
		if ts == "io.Writer" {
			return []string{"io.Writer(new(bytes.Buffer))"}
		}
		if u.NumMethods() == 0 {
			return []string{"interface{}(" + sample + ")", `interface{}(map[string]interface{}{"*": 1, "a": 2})`, "interface{}(nil)", `interface{}("s")`, `interface{}([]interface{}{"p", map[string]interface{}{"k": "v"}})`, "interface{}(float64(1))", `interface{}(map[string]interface{}{"k": "v"})`, `interface{}("k:v")`, `interface{}("k:v:bool")`, `interface{}(map[string]interface{}{})`, `interface{}(3)`}
		}
	case *types.Map:
		if typeKey(u) == "map[string]interface{}" {
			return []string{ts + "(" + sample + ")", ts + `{"k": "a\\u003cb", "h": "<&>"}`, ts + `{"*": 1, "a": 2}`, ts + `{"a": map[string]interface{}{"#comment": map[string]interface{}{"#text": 1.5, "#seq": 0}}}`, ts + `{"a": map[string]interface{}{"#attr": map[string]interface{}{"x": "v"}, "#seq": 0}}`, ts + `{"a": map[string]interface{}{"#text": "head", "#seq": 0, "b": map[string]interface{}{"#seq": 1}}}`, ts + "(nil)", ts + "{}", ts + `{"k": "v"}`, ts + `{"": "x"}`, ts + `{"!k": "*"}`, ts + `{"a": map[string]interface{}{"k": "v"}}`}
		}
	case *types.Slice:
		if isByte(u.Elem()) {
			return []string{ts + `("")`, ts + `("<a>x</a>")`, ts + `("x<a>1</a>")`, ts + `("<a>t<b>1</b>u</a>")`, ts + `("<a><!--c--><b/><?p i?></a>")`, ts + `("<stream:stream><a/>")`, ts + `("{\"a\":\"x\\\\\"}{\"b\":2}")`, ts + `("{\"a\":1}")`, ts + `("</a>")`, ts + `("}")`, ts + `("<a>h<b/></a>")`, ts + `("<a><b>1</b><b>2</b></a>")`, ts + `("<a x=\"1\">t</a>")`, ts + `("[1,2]")`, ts + `("<a")`, ts + `("{\"a\":")`}
		}
		var out []string
		out = append(out, ts+"(nil)")
		for _, e := range corpusFor(u.Elem(), qual) {
			out = append(out, ts+"{"+e+"}")
			if len(out) > 48 {
				break
			}
		}
		el := corpusFor(u.Elem(), qual)
		if len(el) >= 3 {
			out = append(out, ts+"{"+el[1]+", "+el[2]+"}")
		}
		return out
	}
	return nil
}

// corpusTest builds a test that tries combinations of corpus values for every parameter.
func corpusTest(o *Obligation, modelArgs []string, gsets []string, ptrHelpers map[string]string) string {
	return corpusTestFor(o, o.Ctx.top, gsets, true)
}

// corpusTestFor searches the corpus through function fn (the obligation's own function, or a public entry point
// named by `replay-via`); contract clauses are only evaluated when fn is the obligation's function.
func corpusTestFor(o *Obligation, fn *ssa.Function, gsets []string, own bool) string {
	c := o.Ctx
	pkg := c.eng.ld.Pkg
	qual := types.RelativeTo(pkg)
	var lists [][]string
	total := 1
	for i, p := range fn.Params {
		vals := corpusFor(p.Type(), qual)
		if len(vals) == 0 {
			return ""
		}
		_ = i
		lists = append(lists, vals)
		total *= len(vals)
		if total > 200000 {
			return ""
		}
	}
	if len(lists) == 0 {
		return ""
	}
	var sb strings.Builder
	sb.WriteString("//go:build verif\n// +build verif\n\npackage " + pkg.Name() + "\n\nimport (\n\t\"bytes\"\n\t\"fmt\"\n\t\"io\"\n\t\"reflect\"\n\t\"strings\"\n\t\"testing\"\n)\n\nvar _ = reflect.DeepEqual\nvar _ = strings.NewReader\nvar _ = bytes.NewBuffer\nvar _ io.Reader\n\ntype verifOpaque int\n\n" + schedReaderSrc)
	sig := fn.Signature
	sb.WriteString("func TestVerifReplay(t *testing.T) {\n")
	sb.WriteString(strings.Join(gsets, "\n") + "\n")
	for i, l := range lists {
		fmt.Fprintf(&sb, "\tmk%d := []func() %s{\n", i, types.TypeString(fn.Params[i].Type(), qual))
		for _, v := range l {
			fmt.Fprintf(&sb, "\t\tfunc() %s { return %s },\n", types.TypeString(fn.Params[i].Type(), qual), v)
		}
		sb.WriteString("\t}\n")
	}
	sb.WriteString("\ttried := 0\n")
	for i := range lists {
		fmt.Fprintf(&sb, "\tfor i%d := range mk%d {\n", i, i)
	}
	sb.WriteString("\t\ttried++\n\t\tif tried > 20000 { continue }\n")
	sb.WriteString("\t\tfailed := func() (bad bool) {\n")
	var names []string
	for i := range lists {
		fmt.Fprintf(&sb, "\t\t\tin%d := mk%d[i%d]()\n", i, i, i)
		names = append(names, fmt.Sprintf("in%d", i))
	}
	var fmtArgs []string
	for _, n := range names {
		fmtArgs = append(fmtArgs, n)
	}
	fmt.Fprintf(&sb, "\t\t\tdefer func() {\n\t\t\t\tif r := recover(); r != nil {\n\t\t\t\t\tfmt.Printf(\"VERIF-REPLAY outcome=panic value=%%v inputs=%%#v\\n\", r, []interface{}{%s})\n\t\t\t\t\tbad = true\n\t\t\t\t}\n\t\t\t}()\n", strings.Join(fmtArgs, ", "))
	call := ""
	if sig.Recv() != nil {
		call = fmt.Sprintf("%s.%s(%s)", names[0], fn.Name(), callArgs(sig, names[1:]))
	} else {
		call = fmt.Sprintf("%s(%s)", fn.Name(), callArgs(sig, names))
	}
	nres := sig.Results().Len()
	var resNames []string
	for i := 0; i < nres; i++ {
		resNames = append(resNames, fmt.Sprintf("out%d", i))
	}
	var oldNames []string
	evalPost := (o.Kind == "post" || o.Kind == "inv-step" || o.Kind == "inv-init") && c.fc != nil && own
	if evalPost {
		for i, od := range c.fc.Olds {
			if usesGhostIntrinsic(od.Expr) {
				evalPost = false
				break
			}
			nm := fmt.Sprintf("old%d", i)
			fmt.Fprintf(&sb, "\t\t\t%s := %s(%s)\n\t\t\t_ = %s\n", nm, od.Fn, strings.Join(names, ", "), nm)
			oldNames = append(oldNames, nm)
		}
	}
	if evalPost {
		// preconditions must hold for the candidate
		for _, rq := range c.fc.Requires {
			if usesGhostIntrinsic(rq.Expr) {
				evalPost = false
			}
		}
	}
	if c.fc != nil && own {
		for _, rq := range c.fc.Requires {
			if usesGhostIntrinsic(rq.Expr) {
				continue
			}
			fmt.Fprintf(&sb, "\t\t\tif !%s(%s) { return false }\n", rq.Fn, strings.Join(names, ", "))
		}
	}
	if nres > 0 {
		sb.WriteString("\t\t\t" + strings.Join(resNames, ", ") + " := " + call + "\n")
		sb.WriteString("\t\t\t_ = []interface{}{" + strings.Join(resNames, ", ") + "}\n")
	} else {
		sb.WriteString("\t\t\t" + call + "\n")
	}
	if evalPost {
		for i, en := range c.fc.Ensures {
			if usesGhostIntrinsic(en.Expr) {
				continue
			}
			args := append(append(append([]string{}, names...), resNames...), oldNames...)
			fmt.Fprintf(&sb, "\t\t\tif !%s(%s) {\n\t\t\t\tfmt.Printf(\"VERIF-REPLAY ensures%d=false // %s inputs=%%#v\\n\", []interface{}{%s})\n\t\t\t\treturn true\n\t\t\t}\n", en.Fn, strings.Join(args, ", "), i, strings.ReplaceAll(strings.ReplaceAll(en.Raw, "\"", "'"), "%", "%%"), strings.Join(fmtArgs, ", "))
		}
	}
	sb.WriteString("\t\t\treturn false\n\t\t}()\n\t\tif failed {\n\t\t\tfmt.Printf(\"VERIF-REPLAY corpus tried=%d\\n\", tried)\n\t\t\treturn\n\t\t}\n")
	for range lists {
		sb.WriteString("\t}\n")
	}
	sb.WriteString("\tfmt.Printf(\"VERIF-REPLAY outcome=returned tried=%d\\n\", tried)\n}\n")
	return sb.String()
}

func callArgs(sig *types.Signature, args []string) string {
	if sig.Variadic() && len(args) > 0 {
		args = append(append([]string{}, args[:len(args)-1]...), args[len(args)-1]+"...")
	}
	return strings.Join(args, ", ")
}

func collectPtrHelpers(t types.Type, qual types.Qualifier, out map[string]string) {
	if pt, ok := t.Underlying().(*types.Pointer); ok {
		el := pt.Elem()
		if _, isSt := el.Underlying().(*types.Struct); !isSt {
			els := types.TypeString(el, qual)
			name := "verifPtr_" + sanitizeIdent(els)
			out[name] = fmt.Sprintf("func %s(v %s) *%s { return &v }\n\n", name, els, els)
		}
	}
}

// rerunForValues re-solves the obligation with the winning solver and asks for the replay terms.
func rerunForValues(o *Obligation, terms []*Term, scratch string) string {
	c := o.Ctx
	e := c.eng
	tsMu.Lock()
	hyps := relevantFacts(c, o.NFacts, o.Goal, o.Gap, o.PC)
	hyps = append(hyps, preInstantiate(e.ts, hyps, o.Goal)...)
	tsMu.Unlock()
	body := e.ts.Script("", e.tc.Datatypes(), hyps, o.Goal, terms)
	var sp *solverSpec
	for i := range solvers {
		if solvers[i].name == o.Solver {
			sp = &solvers[i]
		}
	}
	if sp == nil {
		return ""
	}
	file := filepath.Join(scratch, fmt.Sprintf("replay-%d.smt2", time.Now().UnixNano()))
	txt := "(set-option :produce-models true)\n" + sp.pre + preludeVal + body.Text
	os.WriteFile(file, []byte(txt), 0o644)
	r := runSolver(context.Background(), *sp, file, 30, 0)
	if r.status != "sat" {
		return ""
	}
	return r.output
}

func propExplanation(prop string) string {
	if s, ok := explanations[prop]; ok {
		return s
	}
	return ""
}

var explanations = map[string]string{}

var _ = ssa.NaiveForm

// replayVia: the failing function takes abstract objects (decoders, readers) that cannot be built from a model;
// search the input corpus through the public entry points named in its contract, with the option values of the model.
func replayVia(o *Obligation, repo, scratch string) (string, bool) {
	c := o.Ctx
	if c.fc == nil || len(c.fc.ReplayVia) == 0 {
		return "replay not applicable: " + c.top.Name() + " takes abstract standard-library objects and names no replay-via entry point; model:\n" + firstLines(o.Model, 30), false
	}
	terms := c.replayTerms()
	out := o.Model
	if o.SMTFile != "" && len(terms) > 0 {
		if r := rerunForValues(o, terms, scratch); r != "" {
			out = r
		}
	}
	mc := parseModel(c, terms, out)
	pkg := c.eng.ld.Pkg
	var gsets []string
	for _, g := range c.globalReads {
		if g.global == nil || g.global.Pkg == nil || g.global.Pkg.Pkg != pkg || strings.Contains(g.global.Name(), "$") {
			continue
		}
		v := mc.val(g.init)
		if v == nil {
			continue
		}
		if _, ok := g.typ.Underlying().(*types.Basic); ok && !strings.Contains(types.TypeString(g.typ, types.RelativeTo(pkg)), ".") {
			gsets = append(gsets, fmt.Sprintf("\t{ old := %s; %s = %s; defer func() { %s = old }() }", g.global.Name(), g.global.Name(), mc.goValue(g.typ, v, 0), g.global.Name()))
		}
	}
	sort.Strings(gsets)
	var rep strings.Builder
	fmt.Fprintf(&rep, "solver model:\n%s\n", firstLines(out, 20))
	for _, via := range c.fc.ReplayVia {
		obj := lookupFunc(pkg, via)
		if obj == nil {
			continue
		}
		vf := c.eng.ld.Prog.FuncValue(obj)
		if vf == nil {
			continue
		}
		for attempt, gs := range [][]string{gsets, nil} {
			what := "with the option values of the model"
			if attempt == 1 {
				if len(gsets) == 0 {
					break
				}
				what = "with the default option values"
			}
			src := corpusTestFor(o, vf, gs, false)
			if src == "" {
				continue
			}
			res := runReplayTest(c, repo, scratch, src)
			if strings.Contains(res, "outcome=panic") || strings.Contains(res, "panic:") || strings.Contains(res, "fatal error:") {
				fmt.Fprintf(&rep, "\ncorpus search through %s %s found a failing input:\n%s\n\ncorpus test:\n%s\nREPRODUCED=true\n", via, what, firstLines(grepLines(res, "VERIF-REPLAY"), 8), src)
				return rep.String(), true
			}
			fmt.Fprintf(&rep, "\ncorpus search through %s %s: no failing input (%s)\n", via, what, firstLines(grepLines(res, "VERIF-REPLAY|FAIL"), 3))
		}
	}
	// reader functions: differential replay over delivery schedules (same bytes, different (n, err) sequences)
	for _, via := range c.fc.ReplayVia {
		obj := lookupFunc(pkg, via)
		if obj == nil {
			continue
		}
		vf := c.eng.ld.Prog.FuncValue(obj)
		if vf == nil {
			continue
		}
		src := scheduleTest(c, vf)
		if src == "" {
			continue
		}
		res := runReplayTest(c, repo, scratch, src)
		if strings.Contains(res, "outcome=mismatch") || strings.Contains(res, "outcome=panic") {
			fmt.Fprintf(&rep, "\ndelivery-schedule replay through %s: the same bytes delivered by a different legal io.Reader schedule give a different result:\n%s\n\ntest:\n%s\nREPRODUCED=true\n", via, firstLines(grepLines(res, "VERIF-REPLAY"), 8), src)
			return rep.String(), true
		}
		fmt.Fprintf(&rep, "\ndelivery-schedule replay through %s: no difference found (%s)\n", via, firstLines(grepLines(res, "VERIF-REPLAY|FAIL"), 3))
	}
	rep.WriteString("REPRODUCED=false\n")
	return rep.String(), false
}

// scheduleTest: for a function with one io.Reader parameter, compare its results on a plain reader with its results
// on readers that deliver the same bytes one at a time, the last byte together with io.EOF, or with (0, nil) reads.
func scheduleTest(c *FnCtx, fn *ssa.Function) string {
	pkg := c.eng.ld.Pkg
	qual := types.RelativeTo(pkg)
	ri := -1
	for i, p := range fn.Params {
		if types.TypeString(p.Type(), qual) == "io.Reader" {
			if ri >= 0 {
				return ""
			}
			ri = i
		}
	}
	if ri < 0 || fn.Signature.Recv() != nil {
		return ""
	}
	var args []string
	for i, p := range fn.Params {
		if i == ri {
			args = append(args, "r")
			continue
		}
		if fn.Signature.Variadic() && i == len(fn.Params)-1 {
			continue
		}
		args = append(args, "*new("+types.TypeString(p.Type(), qual)+")")
	}
	var sb strings.Builder
	sb.WriteString("//go:build verif\n// +build verif\n\npackage " + pkg.Name() + "\n\nimport (\n\t\"fmt\"\n\t\"io\"\n\t\"strings\"\n\t\"testing\"\n)\n\n" + schedReaderSrc)
	fmt.Fprintf(&sb, `func verifRunAll(r io.Reader) (out string) {
	defer func() {
		if p := recover(); p != nil {
			out += fmt.Sprintf(" PANIC(%%v)", p)
		}
	}()
	for i := 0; i < 6; i++ {
		res := fmt.Sprint(verifCall(r))
		out += "|" + res
		if strings.Contains(res, "EOF") {
			break
		}
	}
	return out
}

func verifCall(r io.Reader) []interface{} {
	%s
}

func TestVerifReplay(t *testing.T) {
	docs := []string{"<a>1</a>", "<a>1</a><b>2</b>", "<a><b>x</b></a> <c/>", "{\"a\":1}", "{\"a\":\"x\"} {\"b\":2}", "{\"a\":\"x\\\\\"}{\"b\":2}", "{\"a\":{\"b\":\"}\"}}"}
	for _, d := range docs {
		want := verifRunAll(strings.NewReader(d))
		for k, mk := range []func() io.Reader{
			func() io.Reader { return &verifSchedReader{data: []byte(d)} },
			func() io.Reader { return &verifSchedReader{data: []byte(d), eofWithData: true} },
			func() io.Reader { return &verifSchedReader{data: []byte(d), zeroReads: true} },
		} {
			got := verifRunAll(mk())
			if got != want {
				fmt.Printf("VERIF-REPLAY outcome=mismatch doc=%%q schedule=%%d (0: one byte per Read, 1: last byte with io.EOF, 2: (0,nil) reads interspersed)\n   plain reader: %%s\n   this schedule: %%s\n", d, k, want, got)
				return
			}
		}
	}
	fmt.Printf("VERIF-REPLAY outcome=same\n")
}
`, scheduleCallBody(fn, args))
	return sb.String()
}

func scheduleCallBody(fn *ssa.Function, args []string) string {
	n := fn.Signature.Results().Len()
	var rs []string
	for i := 0; i < n; i++ {
		rs = append(rs, fmt.Sprintf("r%d", i))
	}
	call := fmt.Sprintf("%s(%s)", fn.Name(), strings.Join(args, ", "))
	if n == 0 {
		return call + "\n\treturn nil"
	}
	var conv []string
	for i, r := range rs {
		if _, isBytes := fn.Signature.Results().At(i).Type().Underlying().(*types.Slice); isBytes {
			conv = append(conv, "string("+r+")")
		} else {
			conv = append(conv, r)
		}
	}
	return strings.Join(rs, ", ") + " := " + call + "\n\treturn []interface{}{" + strings.Join(conv, ", ") + "}"
}

var ghostIntrinsicNames = []string{"verifBuf", "verifRdPos", "verifRdData", "verifRdEOF", "verifWritten", "verifTokPos", "verifTokDepth", "verifFresh", "verifFreshVal",
	"verifRangeCount", "verifRangeIndex", "verifHeight", "verifIsNaN", "verifIsInf", "verifVisited", "verifLent", "verifInfallibleWriter", "verifIsByteReader", "verifMapsSameExcept", "verifMapSameExceptKey", "verifMapSameExceptKeys", "verifOldHas", "verifOldGet", "verifOldLen", "verifLoopSame", "verifFile", "verifOldTrueB", "verifGrowsB", "verifMapUnchanged", "verifOldInt", "verifOldBool"}

// usesGhostIntrinsic: the clause mentions a ghost function that has no executable body (cannot be evaluated in a replay).
func usesGhostIntrinsic(expr string) bool {
	for _, n := range ghostIntrinsicNames {
		if strings.Contains(expr, n+"(") {
			return true
		}
	}
	return false
}

// a reader that exercises the corners of the io.Reader contract: one byte per Read, optionally the last byte
// together with io.EOF, optionally a (0, nil) read before every byte.
const schedReaderSrc = `type verifSchedReader struct {
	data        []byte
	pos         int
	eofWithData bool
	zeroReads   bool
	zeroNext    bool
}

func (r *verifSchedReader) Read(p []byte) (int, error) {
	if r.pos >= len(r.data) {
		return 0, io.EOF
	}
	if len(p) == 0 {
		return 0, nil
	}
	if r.zeroReads {
		r.zeroNext = !r.zeroNext
		if r.zeroNext {
			return 0, nil
		}
	}
	p[0] = r.data[r.pos]
	r.pos++
	if r.eofWithData && r.pos == len(r.data) {
		return 1, io.EOF
	}
	return 1, nil
}

`
