package main

import (
	"fmt"
	"go/token"
	"go/types"

	"golang.org/x/tools/go/ssa"
)

func isNilConst(v ssa.Value) bool {
	k, ok := v.(*ssa.Const)
	return ok && k.Value == nil
}

func (c *FnCtx) binop(st *State, op token.Token, xv, yv SymVal, xt, yt types.Type, pos token.Pos, in *ssa.BinOp) SymVal {
	ts := c.eng.ts
	tc := c.eng.tc
	// pointer comparisons with stack pointers
	if px, ok := xv.(*PtrVal); ok {
		if px.cell != nil || len(px.path) > 0 {
			if op == token.EQL || op == token.NEQ {
				if t, ok := yv.(*Term); ok {
					if v, isLit := t.IntLit(); isLit && v == 0 {
						return ts.Bool(op == token.NEQ)
					}
				}
			}
			unsupported("comparison of interior pointers")
		}
		xv = px.obj
	}
	if py, ok := yv.(*PtrVal); ok {
		if py.cell != nil || len(py.path) > 0 {
			if op == token.EQL || op == token.NEQ {
				if t, ok := xv.(*Term); ok {
					if v, isLit := t.IntLit(); isLit && v == 0 {
						return ts.Bool(op == token.NEQ)
					}
				}
			}
			unsupported("comparison of interior pointers")
		}
		yv = py.obj
	}
	if fx, ok := xv.(*FuncVal); ok {
		xv = c.toTerm(st, fx, xt)
	}
	if fy, ok := yv.(*FuncVal); ok {
		yv = c.toTerm(st, fy, yt)
	}
	x := xv.(*Term)
	y := yv.(*Term)
	srt := x.sort
	c.curPos = pos
	c.curBinOp = in
	switch op {
	case token.EQL, token.NEQ:
		var eq *Term
		switch {
		case srt == SF64:
			eq = ts.UF("f64!eq", SBool, x, y)
			c.addFact(st, ts.Implies(ts.Eq(x, y), ts.Or(eq, ts.UF("f64!isnan", SBool, x))))
			c.addFact(st, ts.Implies(ts.UF("f64!isnan", SBool, x), ts.Not(eq)))
		case srt == SVal:
			eq = ts.Eq(x, y)
			if in != nil && !isNilConst(in.X) && !isNilConst(in.Y) {
				// comparing two interface values panics when both hold the same uncomparable dynamic type
				bothMap := ts.And(tc.IsType(types.NewMap(types.Typ[types.String], types.NewInterfaceType(nil, nil)), x), tc.IsType(types.NewMap(types.Typ[types.String], types.NewInterfaceType(nil, nil)), y))
				bothList := ts.And(tc.IsType(types.NewSlice(types.NewInterfaceType(nil, nil)), x), tc.IsType(types.NewSlice(types.NewInterfaceType(nil, nil)), y))
				c.addObl(st, "iface-eq", fmt.Sprintf("#%d", c.kindOrd["iface-eq"]), ts.Not(ts.Or(bothMap, bothList)), pos, "comparing uncomparable dynamic types panics")
				if x.sort == SVal {
					// float payloads compare with float semantics; NaN != NaN is ignored (never relied upon)
				}
			}
		case srt.IsSeq() || (srt == SString && isSliceType(xt)):
			// slice == nil
			isnil := ts.Fresh("slice!isnil", SBool)
			other := x
			if isNilConst(in.X) {
				other = y
			}
			c.addFact(st, ts.Implies(isnil, ts.Eq(ts.Len(other), ts.Int(0))))
			c.trusted["nil-ness of a slice is not modelled: s == nil is arbitrary when len(s) == 0, false otherwise"] = true
			eq = isnil
		default:
			eq = ts.Eq(x, y)
		}
		if op == token.NEQ {
			return ts.Not(eq)
		}
		return eq
	}
	if srt == SString {
		switch op {
		case token.ADD:
			return ts.Concat(x, y)
		case token.LSS:
			return ts.App("str.<", SBool, x, y)
		case token.LEQ:
			return ts.App("str.<=", SBool, x, y)
		case token.GTR:
			return ts.App("str.<", SBool, y, x)
		case token.GEQ:
			return ts.App("str.<=", SBool, y, x)
		}
	}
	if srt == SBool {
		switch op {
		case token.AND, token.LAND:
			return ts.And(x, y)
		case token.OR, token.LOR:
			return ts.Or(x, y)
		}
	}
	if srt == SF64 {
		switch op {
		case token.LSS:
			return ts.UF("f64!lt", SBool, x, y)
		case token.GTR:
			return ts.UF("f64!lt", SBool, y, x)
		case token.LEQ:
			return ts.UF("f64!le", SBool, x, y)
		case token.GEQ:
			return ts.UF("f64!le", SBool, y, x)
		case token.ADD, token.SUB, token.MUL, token.QUO:
			return ts.UF("f64!"+map[token.Token]string{token.ADD: "add", token.SUB: "sub", token.MUL: "mul", token.QUO: "div"}[op], SF64, x, y)
		}
	}
	if srt == SInt {
		switch op {
		case token.ADD:
			return c.wrapInt(st, ts.Add(x, y), xt)
		case token.SUB:
			return c.wrapInt(st, ts.Sub(x, y), xt)
		case token.MUL:
			return c.wrapInt(st, ts.Mul(x, y), xt)
		case token.LSS:
			return ts.Lt(x, y)
		case token.LEQ:
			return ts.Le(x, y)
		case token.GTR:
			return ts.Gt(x, y)
		case token.GEQ:
			return ts.Ge(x, y)
		case token.QUO, token.REM:
			c.addObl(st, "div0", fmt.Sprintf("#%d", c.kindOrd["div0"]), ts.Not(ts.Eq(y, ts.Int(0))), pos, "division by zero")
			// Go truncates toward zero; SMT div floors for positive divisor. Exact for non-negative operands, else uninterpreted.
			nonneg := ts.And(ts.Ge(x, ts.Int(0)), ts.Gt(y, ts.Int(0)))
			r := ts.Fresh("divmod", SInt)
			if op == token.QUO {
				c.addFact(st, ts.Implies(nonneg, ts.Eq(r, ts.App("div", SInt, x, y))))
			} else {
				c.addFact(st, ts.Implies(nonneg, ts.Eq(r, ts.App("mod", SInt, x, y))))
			}
			return r
		case token.AND, token.OR, token.XOR, token.SHL, token.SHR, token.AND_NOT:
			r := ts.UF("bit!"+sanitize(op.String()), SInt, x, y)
			c.trusted["bitwise integer operators are uninterpreted"] = true
			return r
		}
	}
	unsupported("binop %s on %s", op, srt)
	return nil
}

func isSliceType(t types.Type) bool {
	_, ok := t.Underlying().(*types.Slice)
	return ok
}

// wrapInt: machine arithmetic is modelled as mathematical arithmetic; that is justified by an obligation at every
// +, -, * of the real code that the mathematical result fits the operand type (kind "overflow").
func (c *FnCtx) wrapInt(st *State, v *Term, t types.Type) *Term {
	ts := c.eng.ts
	if _, isLit := v.IntLit(); isLit {
		return v
	}
	b, ok := t.Underlying().(*types.Basic)
	if !ok {
		return v
	}
	lo, hi := intRange(b)
	if lo == "" {
		return v
	}
	if c.curBinOp != nil && isCounterStep(c.curBinOp) {
		c.trusted["a local counter changed only by constant steps cannot wrap around within any feasible running time (2^63 steps)"] = true
		return v
	}
	c.addObl(st, "overflow", fmt.Sprintf("#%d", c.kindOrd["overflow"]), ts.And(ts.Le(ts.BigInt(lo), v), ts.Le(v, ts.BigInt(hi))), c.curPos, "integer arithmetic may wrap around")
	c.trusted["lengths of strings, slices and maps are at most 2^56 (address-space bound)"] = true
	return v
}

// isCounterStep: the statement  x++ / x-- / x += 1  for any variable, field or pointer target x: the sum is computed from
// a load of x and stored straight back to x and used nowhere else. Such unit steps cannot wrap around within any feasible
// running time, provided x starts in a sane range; an arithmetic result that is used as a value (index, bound, length)
// is NOT exempt.
func isCounterStep(b *ssa.BinOp) bool {
	if b.Op != token.ADD && b.Op != token.SUB {
		return false
	}
	k, isC := b.Y.(*ssa.Const)
	if !isC || k.Value == nil {
		return false
	}
	if v := k.Int64(); v != 1 && v != -1 {
		return false
	}
	ld, ok := b.X.(*ssa.UnOp)
	if !ok || ld.Op != token.MUL {
		return false
	}
	refs := b.Referrers()
	if refs == nil {
		return false
	}
	stores := 0
	for _, r := range *refs {
		switch x := r.(type) {
		case *ssa.Store:
			if x.Val != b || !sameAddr(x.Addr, ld.X) {
				return false
			}
			stores++
		case *ssa.DebugRef:
		default:
			return false
		}
	}
	return stores == 1
}

// sameAddr: two address expressions denote the same location (same register, or the same field / pointer target
// reached through loads of the same variable).
func sameAddr(a, b ssa.Value) bool {
	if a == b {
		return true
	}
	switch x := a.(type) {
	case *ssa.FieldAddr:
		y, ok := b.(*ssa.FieldAddr)
		return ok && x.Field == y.Field && sameAddr(x.X, y.X)
	case *ssa.UnOp:
		y, ok := b.(*ssa.UnOp)
		return ok && x.Op == token.MUL && y.Op == token.MUL && sameAddr(x.X, y.X)
	case *ssa.Alloc, *ssa.Parameter, *ssa.Global:
		return a == b
	}
	return false
}
