package main

import (
	"fmt"
	"go/constant"
	"go/token"
	"go/types"
	"strings"

	"golang.org/x/tools/go/ssa"
)

func (e *Engine) globalCell(g *ssa.Global) *Cell {
	if e.globals == nil {
		e.globals = map[*ssa.Global]*Cell{}
	}
	if c, ok := e.globals[g]; ok {
		return c
	}
	t := g.Type().(*types.Pointer).Elem()
	e.cellSeq++
	name := g.Name()
	if g.Pkg != nil && g.Pkg.Pkg != e.ld.Pkg {
		name = g.Pkg.Pkg.Name() + "." + name
	}
	c := &Cell{name: name, typ: t, global: g, id: e.cellSeq}
	c.init = e.ts.Named("g!"+name, e.tc.SortOf(t))
	e.globals[g] = c
	return c
}

func (c *FnCtx) constVal(k *ssa.Const) SymVal {
	ts := c.eng.ts
	t := k.Type()
	if k.Value == nil {
		// zero value / nil
		if _, ok := t.Underlying().(*types.Tuple); ok {
			unsupported("tuple const")
		}
		return c.eng.tc.Zero(t)
	}
	switch k.Value.Kind() {
	case constant.Bool:
		return ts.Bool(constant.BoolVal(k.Value))
	case constant.String:
		return ts.Str(constant.StringVal(k.Value))
	case constant.Int:
		if c.eng.tc.SortOf(t) == SF64 {
			return ts.UF("f64!lit!"+sanitize(k.Value.ExactString()), SF64)
		}
		return ts.BigInt(k.Value.ExactString())
	case constant.Float:
		if c.eng.tc.SortOf(t) == SInt {
			return ts.BigInt(constant.ToInt(k.Value).ExactString())
		}
		return ts.UF("f64!lit!"+sanitize(k.Value.ExactString()), SF64)
	}
	unsupported("constant %s", k)
	return nil
}

// ---- pointers ----

func (c *FnCtx) asPtr(v SymVal, pointee types.Type) *PtrVal {
	switch p := v.(type) {
	case *PtrVal:
		return p
	case *Term:
		return &PtrVal{obj: p, root: pointee}
	}
	unsupported("not a pointer: %T", v)
	return nil
}

// toTerm converts a register value to a plain term (pointers must be whole heap objects).
func (c *FnCtx) toTerm(st *State, v SymVal, t types.Type) *Term {
	switch p := v.(type) {
	case *Term:
		return p
	case *PtrVal:
		if p.cell == nil && len(p.path) == 0 {
			return p.obj
		}
		unsupported("interior or stack pointer escapes (type %s)", t)
	case *FuncVal:
		if p.fn == nil {
			return c.eng.ts.Int(0)
		}
		if len(p.bindings) > 0 {
			unsupported("closure value used as data")
		}
		return c.eng.funcID(p.fn)
	}
	unsupported("cannot convert %T to a term", v)
	return nil
}

func (e *Engine) funcID(fn *ssa.Function) *Term {
	return e.ts.UF("fn!"+sanitize(fn.String()), SInt)
}

func (c *FnCtx) ptrHeapName(t types.Type) (string, Sort) {
	name := "P:" + typeKey(t)
	s := ArrOf(SInt, c.eng.tc.SortOf(t))
	c.eng.heapSorts[name] = s
	return name, s
}

func (c *FnCtx) fieldHeapName(t types.Type, i int) (string, Sort) {
	st := t.Underlying().(*types.Struct)
	name := "F:" + typeKey(t) + "." + st.Field(i).Name()
	s := ArrOf(SInt, c.eng.tc.SortOf(st.Field(i).Type()))
	c.eng.heapSorts[name] = s
	return name, s
}

type mapHeaps struct {
	dom, sel, ln    string
	sdom, ssel, sln Sort
	ks, vs          Sort
}

func (c *FnCtx) mapHeaps(st *State, t types.Type) mapHeaps {
	mt := t.Underlying().(*types.Map)
	k := typeKey(mt)
	tc := c.eng.tc
	ks, vs := tc.SortOf(mt.Key()), tc.SortOf(mt.Elem())
	mh := mapHeaps{dom: "Mdom:" + k, sel: "Msel:" + k, ln: "Mlen:" + k, ks: ks, vs: vs}
	mh.sdom = ArrOf(SInt, ArrOf(ks, SBool))
	mh.ssel = ArrOf(SInt, ArrOf(ks, vs))
	mh.sln = ArrOf(SInt, SInt)
	if _, ok := c.eng.heapSorts[mh.dom]; !ok {
		c.eng.heapSorts[mh.dom] = mh.sdom
		c.eng.heapSorts[mh.sel] = mh.ssel
		c.eng.heapSorts[mh.ln] = mh.sln
	}
	return mh
}

func isStructNonOpaque(t types.Type) bool {
	_, ok := t.Underlying().(*types.Struct)
	return ok && !isOpaqueStruct(t)
}

// load reads the value a pointer designates.
func (c *FnCtx) load(st *State, p *PtrVal) *Term {
	ts := c.eng.ts
	var cur *Term
	var curT types.Type
	path := p.path
	if p.cell != nil {
		cur = c.getCell(st, p.cell)
		curT = p.cell.typ
	} else {
		curT = p.root
		if isStructNonOpaque(p.root) {
			if len(path) > 0 && !path[0].isIdx {
				hn, hs := c.fieldHeapName(p.root, path[0].field)
				cur = c.hget(st, hn, hs, p.obj)
				curT = p.root.Underlying().(*types.Struct).Field(path[0].field).Type()
				path = path[1:]
			} else {
				stt := p.root.Underlying().(*types.Struct)
				fs := make([]*Term, stt.NumFields())
				for i := range fs {
					hn, hs := c.fieldHeapName(p.root, i)
					fs[i] = c.hget(st, hn, hs, p.obj)
				}
				cur = c.eng.tc.MkStruct(p.root, fs)
			}
		} else if isOpaqueStruct(p.root) {
			if len(path) > 0 {
				// configuration field of a standard-library object (Decoder.Strict, ...): value not tracked
				c.trusted["fields of standard-library objects (xml.Decoder.Strict, CharsetReader, ...) are not tracked"] = true
				ft := p.root.Underlying().(*types.Struct).Field(path[0].field).Type()
				return c.eng.symbolicInput(c, st, "opaque!field", ft)
			}
			return p.obj
		} else {
			hn, hs := c.ptrHeapName(p.root)
			cur = c.hget(st, hn, hs, p.obj)
		}
	}
	for _, s := range path {
		if s.isIdx {
			cur = ts.Nth(cur, s.idx)
			curT = elemType(curT)
		} else {
			cur = c.eng.tc.Field(curT, cur, s.field)
			curT = curT.Underlying().(*types.Struct).Field(s.field).Type()
		}
	}
	return cur
}

func elemType(t types.Type) types.Type {
	switch u := t.Underlying().(type) {
	case *types.Slice:
		return u.Elem()
	case *types.Array:
		return u.Elem()
	case *types.Pointer:
		return elemType(u.Elem())
	case *types.Basic:
		return types.Typ[types.Uint8]
	}
	panic("elemType " + t.String())
}

func (c *FnCtx) seqUpdate(s, i, v *Term) *Term {
	ts := c.eng.ts
	var mid *Term
	if s.sort == SString {
		mid = ts.App("str.from_code", SString, v)
	} else {
		mid = ts.Unit(v)
	}
	n := ts.Len(s)
	r := ts.Concat(ts.Concat(ts.Extract(s, ts.Int(0), i), mid), ts.Extract(s, ts.Add(i, ts.Int(1)), ts.Sub(ts.Sub(n, i), ts.Int(1))))
	if s.sort != SString && r.kind == kApp && c.curState != nil {
		// element-wise characterisation of an in-place element update (lemma for quantified invariants)
		bv := ts.Bound("u", SInt)
		inRange := ts.And(ts.Le(ts.Int(0), i), ts.Lt(i, n))
		c.addFactNth(c.curState, r, ts.Quant("forall", bv, ts.Implies(ts.And(inRange, ts.Le(ts.Int(0), bv), ts.Lt(bv, n)),
			ts.Eq(ts.Nth(r, bv), ts.Ite(ts.Eq(bv, i), v, ts.Nth(s, bv))))))
		c.addFactNth(c.curState, r, ts.Implies(inRange, ts.Eq(ts.Len(r), n)))
	}
	return r
}

func (c *FnCtx) updatePath(cur *Term, curT types.Type, path []Sel, v *Term) *Term {
	if len(path) == 0 {
		return v
	}
	s := path[0]
	if s.isIdx {
		old := c.eng.ts.Nth(cur, s.idx)
		nv := c.updatePath(old, elemType(curT), path[1:], v)
		return c.seqUpdate(cur, s.idx, nv)
	}
	old := c.eng.tc.Field(curT, cur, s.field)
	ft := curT.Underlying().(*types.Struct).Field(s.field).Type()
	nv := c.updatePath(old, ft, path[1:], v)
	return c.eng.tc.WithField(curT, cur, s.field, nv)
}

// store writes v through pointer p.
func (c *FnCtx) store(st *State, p *PtrVal, v *Term) {
	c.curState = st
	defer func() { c.curState = nil }()
	_ = c.eng.ts
	if p.cell != nil {
		if p.cell.detached {
			unsupported("store into a slice/array value whose variable is not known (%s)", p.cell.name)
		}
		if len(p.path) == 0 {
			c.setCell(st, p.cell, v)
			return
		}
		cur := c.getCell(st, p.cell)
		c.setCell(st, p.cell, c.updatePath(cur, p.cell.typ, p.path, v))
		return
	}
	if isStructNonOpaque(p.root) {
		stt := p.root.Underlying().(*types.Struct)
		if len(p.path) == 0 {
			for i := 0; i < stt.NumFields(); i++ {
				hn, hs := c.fieldHeapName(p.root, i)
				c.setHeapAt(st, hn, hs, p.obj, c.eng.tc.Field(p.root, v, i))
			}
			return
		}
		if p.path[0].isIdx {
			unsupported("index into struct pointer")
		}
		f := p.path[0].field
		hn, hs := c.fieldHeapName(p.root, f)
		if len(p.path) == 1 {
			c.setHeapAt(st, hn, hs, p.obj, v)
			return
		}
		cur := c.hget(st, hn, hs, p.obj)
		c.setHeapAt(st, hn, hs, p.obj, c.updatePath(cur, stt.Field(f).Type(), p.path[1:], v))
		return
	}
	if isOpaqueStruct(p.root) {
		c.trusted["fields of standard-library objects (xml.Decoder.Strict, CharsetReader, ...) are not tracked"] = true
		return
	}
	hn, hs := c.ptrHeapName(p.root)
	if len(p.path) == 0 {
		c.setHeapAt(st, hn, hs, p.obj, v)
		return
	}
	cur := c.hget(st, hn, hs, p.obj)
	c.setHeapAt(st, hn, hs, p.obj, c.updatePath(cur, p.root, p.path, v))
}

func (c *FnCtx) nonNilObl(st *State, p *PtrVal, pos token.Pos, what string) {
	if p.cell != nil {
		return
	}
	ts := c.eng.ts
	c.addObl(st, "nilptr", fmt.Sprintf("#%d %s", c.kindOrd["nilptr"], what), ts.Not(ts.Eq(p.obj, ts.Int(0))), pos, what)
}

// alloc creates a fresh heap object id.
func (c *FnCtx) allocObj(st *State, hint string) *Term {
	ts := c.eng.ts
	o := ts.Fresh("obj!"+hint, SInt)
	c.addFact(st, ts.Eq(o, st.wm))
	nw := ts.Add(st.wm, ts.Int(1))
	st.wm = nw
	if c.writeLog != nil {
		c.writeLog.wm = true
		c.writeLog.alloc[o.id] = true
	}
	return o
}

// ---- instruction semantics ----

func (c *FnCtx) execInstr(fr *Frame, st *State, in ssa.Instruction) {
	ts := c.eng.ts
	tc := c.eng.tc
	switch x := in.(type) {
	case *ssa.DebugRef:
	case *ssa.Alloc:
		t := x.Type().(*types.Pointer).Elem()
		if !x.Heap {
			cell, ok := fr.cells[x]
			if !ok {
				cell = c.newCell(x.Comment, t)
				fr.cells[x] = cell
			}
			c.setCell(st, cell, tc.Zero(t))
			fr.regs[x] = &PtrVal{cell: cell, root: t}
			return
		}
		o := c.allocObj(st, x.Comment)
		p := &PtrVal{obj: o, root: t}
		if !isOpaqueStruct(t) {
			c.store(st, p, tc.Zero(t))
		} else if k := typeKey(t); k == "bytes.Buffer" || k == "strings.Builder" {
			// the zero value of a Buffer / Builder is an empty buffer
			c.gset(st, "G:buf", o, ts.Str(""))
		}
		fr.regs[x] = p
	case *ssa.Store:
		t := x.Addr.Type().Underlying().(*types.Pointer).Elem()
		p := c.asPtr(fr.val(x.Addr), t)
		c.nonNilObl(st, p, x.Pos(), "store through "+x.Addr.Name())
		c.store(st, p, c.toTerm(st, fr.val(x.Val), t))
	case *ssa.UnOp:
		c.execUnOp(fr, st, x)
	case *ssa.BinOp:
		fr.regs[x] = c.binop(st, x.Op, fr.val(x.X), fr.val(x.Y), x.X.Type(), x.Y.Type(), x.Pos(), x)
	case *ssa.Phi:
		// value depends on which predecessor edge was taken: pcs of preds are not available here; use edge facts
		unsupportedPhi(c, fr, st, x)
	case *ssa.ChangeType:
		fr.regs[x] = fr.val(x.X)
		if o, ok := fr.origin[x.X]; ok {
			fr.origin[x] = o
		}
	case *ssa.ChangeInterface:
		fr.regs[x] = fr.val(x.X)
	case *ssa.Convert:
		fr.regs[x] = c.convert(st, fr.val(x.X), x.X.Type(), x.Type())
	case *ssa.MakeInterface:
		v := c.toTerm(st, fr.val(x.X), x.X.Type())
		b, facts := tc.Box(x.X.Type(), v)
		for _, f := range facts {
			c.addFact(st, f)
		}
		fr.regs[x] = b
		if o, ok := fr.origin[x.X]; ok {
			fr.origin[x] = o
		}
		switch typeKey(x.X.Type()) {
		case "*bytes.Buffer", "*strings.Builder":
			c.addFactT(st, b, ts.UF("infallibleWriter", SBool, b))
		}
	case *ssa.TypeAssert:
		c.typeAssert(fr, st, x)
	case *ssa.Extract:
		fr.regs[x] = fr.val(x.Tuple).(Tuple)[x.Index]
	case *ssa.MakeMap:
		o := c.allocObj(st, "map")
		mh := c.mapHeaps(st, x.Type())
		c.setHeapAt(st, mh.dom, mh.sdom, o, ts.ConstArr(ArrOf(mh.ks, SBool), ts.Bool(false)))
		c.setHeapAt(st, mh.ln, mh.sln, o, ts.Int(0))
		fr.regs[x] = o
	case *ssa.MakeSlice:
		n := fr.val(x.Len).(*Term)
		c.addObl(st, "bounds", fmt.Sprintf("#%d make len", c.kindOrd["bounds"]), ts.Ge(n, ts.Int(0)), x.Pos(), "make: negative length")
		et := x.Type().Underlying().(*types.Slice).Elem()
		srt := tc.SortOf(x.Type())
		if k, ok := n.IntLit(); ok && k >= 0 && k <= 8 {
			var s *Term
			if srt == SString {
				s = ts.Str(strings.Repeat("\x00", int(k)))
			} else {
				s = ts.EmptySeq(srt)
				for i := int64(0); i < k; i++ {
					s = ts.Concat(s, ts.Unit(tc.Zero(et)))
				}
			}
			fr.regs[x] = s
		} else {
			s := ts.Fresh("mkslice", srt)
			c.addFact(st, ts.Eq(ts.Len(s), n))
			fr.regs[x] = s
			c.noteMadeSlice(st, s, et)
		}
	case *ssa.Slice:
		c.sliceOp(fr, st, x)
	case *ssa.IndexAddr:
		c.indexAddr(fr, st, x)
	case *ssa.Index:
		s := fr.val(x.X).(*Term)
		i := fr.val(x.Index).(*Term)
		c.addObl(st, "bounds", fmt.Sprintf("#%d %s", c.kindOrd["bounds"], srcText(c, x)), ts.And(ts.Le(ts.Int(0), i), ts.Lt(i, ts.Len(s))), x.Pos(), "index out of range")
		fr.regs[x] = ts.Nth(s, i)
	case *ssa.FieldAddr:
		pt := x.X.Type().Underlying().(*types.Pointer).Elem()
		p := c.asPtr(fr.val(x.X), pt)
		c.nonNilObl(st, p, x.Pos(), "field of "+x.X.Name())
		np := &PtrVal{cell: p.cell, obj: p.obj, root: p.root, path: append(append([]Sel{}, p.path...), Sel{field: x.Field, typ: pt})}
		fr.regs[x] = np
	case *ssa.Field:
		v := fr.val(x.X).(*Term)
		fr.regs[x] = tc.Field(x.X.Type(), v, x.Field)
	case *ssa.Lookup:
		c.lookup(fr, st, x)
	case *ssa.MapUpdate:
		c.mapUpdate(fr, st, x)
	case *ssa.Range:
		c.rangeOp(fr, st, x)
	case *ssa.Next:
		c.nextOp(fr, st, x)
	case *ssa.Call:
		c.call(fr, st, x, &x.Call)
	case *ssa.Defer:
		c.trusted["defer: deferred calls (only fh.Close()) are not executed by the model"] = true
	case *ssa.RunDefers:
	case *ssa.MakeClosure:
		fv := &FuncVal{fn: x.Fn.(*ssa.Function)}
		for _, b := range x.Bindings {
			fv.bindings = append(fv.bindings, fr.val(b))
		}
		fr.regs[x] = fv
	case *ssa.Go, *ssa.Select, *ssa.Send, *ssa.MakeChan:
		unsupported("concurrency construct %T", in)
	default:
		unsupported("instruction %T (%s)", in, in)
	}
}

func srcText(c *FnCtx, in ssa.Instruction) string {
	// a short, line-independent description: the instruction with register names stripped of numbers is unstable,
	// so use operand source names where available
	s := in.String()
	if len(s) > 60 {
		s = s[:60]
	}
	return s
}

func unsupportedPhi(c *FnCtx, fr *Frame, st *State, x *ssa.Phi) {
	// NaiveForm only creates phis for && / || value expressions: edges' values are consts or registers.
	// We model the phi as a fresh symbol constrained per predecessor by that predecessor's path condition,
	// which we do not track here; instead use the structure: value = last defined edge value under its condition.
	ts := c.eng.ts
	b := x.Block()
	var r *Term
	for i := len(x.Edges) - 1; i >= 0; i-- {
		p := b.Preds[i]
		pc, ok := fr.predPC[edgeKey{p.Index, b.Index}]
		v, okv := fr.regs[x.Edges[i]]
		if k, isC := x.Edges[i].(*ssa.Const); isC {
			v, okv = c.constVal(k), true
		}
		if !ok || !okv {
			continue
		}
		t := c.toTerm(st, v, x.Type())
		if r == nil {
			r = t
		} else {
			r = ts.Ite(pc, t, r)
		}
	}
	if r == nil {
		unsupported("phi without reachable edges")
	}
	fr.regs[x] = r
}

func (c *FnCtx) execUnOp(fr *Frame, st *State, x *ssa.UnOp) {
	ts := c.eng.ts
	switch x.Op {
	case token.MUL:
		t := x.X.Type().Underlying().(*types.Pointer).Elem()
		p := c.asPtr(fr.val(x.X), t)
		c.nonNilObl(st, p, x.Pos(), "load through "+x.X.Name())
		v := c.load(st, p)
		fr.regs[x] = v
		switch t.Underlying().(type) {
		case *types.Slice, *types.Array:
			fr.origin[x] = p
		}
		c.readFacts(st, v, t)
	case token.NOT:
		fr.regs[x] = ts.Not(fr.val(x.X).(*Term))
	case token.SUB:
		v := fr.val(x.X).(*Term)
		if v.sort == SF64 {
			fr.regs[x] = ts.UF("f64!neg", SF64, v)
		} else {
			fr.regs[x] = ts.Sub(ts.Int(0), v)
		}
	case token.ARROW:
		// channel receive (time.After): arbitrary value
		c.trusted["chan receive (<-time.After) yields an arbitrary value, no effect on state"] = true
		if tup, ok := x.Type().(*types.Tuple); ok {
			fr.regs[x] = Tuple{ts.Fresh("recv", c.eng.tc.SortOf(tup.At(0).Type())), ts.Fresh("recvok", SBool)}
		} else {
			fr.regs[x] = ts.Fresh("recv", c.eng.tc.SortOf(x.Type()))
		}
	case token.XOR:
		v := fr.val(x.X).(*Term)
		fr.regs[x] = ts.Sub(ts.Int(-1), v)
	default:
		unsupported("unary op %s", x.Op)
	}
}

// readFacts: representation facts about a value just read from memory (object ids are below the watermark, ...).
func (c *FnCtx) readFacts(st *State, v *Term, t types.Type) {
	ts := c.eng.ts
	switch t.Underlying().(type) {
	case *types.Pointer, *types.Map:
		if v.kind != kLit {
			c.addFact(st, ts.And(ts.Le(ts.Int(0), v), ts.Lt(v, st.wm)))
		}
	}
}

func (c *FnCtx) convert(st *State, v SymVal, from, to types.Type) SymVal {
	ts := c.eng.ts
	tc := c.eng.tc
	fs, tsrt := tc.SortOf(from), tc.SortOf(to)
	t, isTerm := v.(*Term)
	if !isTerm {
		if fs == tsrt {
			return v
		}
		unsupported("convert %s -> %s", from, to)
	}
	if fs == tsrt {
		if fs == SInt {
			fb, ok1 := from.Underlying().(*types.Basic)
			tb, ok2 := to.Underlying().(*types.Basic)
			if ok1 && ok2 {
				flo, fhi := intRange(fb)
				tlo, thi := intRange(tb)
				if !(rangeWithin(flo, fhi, tlo, thi)) {
					// narrowing / sign change: result is v when it fits, else an arbitrary value in range
					r := ts.Fresh("conv", SInt)
					fits := ts.And(ts.Le(ts.BigInt(tlo), t), ts.Le(t, ts.BigInt(thi)))
					c.addFact(st, ts.Implies(fits, ts.Eq(r, t)))
					c.addFact(st, ts.And(ts.Le(ts.BigInt(tlo), r), ts.Le(r, ts.BigInt(thi))))
					return r
				}
			}
		}
		return t
	}
	switch {
	case fs == SInt && tsrt == SString:
		// string(rune)
		r := ts.UF("runeToString", SString, t)
		c.addFact(st, ts.Implies(ts.And(ts.Le(ts.Int(0), t), ts.Lt(t, ts.Int(128))), ts.Eq(r, ts.App("str.from_code", SString, t))))
		return r
	case fs == SInt && tsrt == SF64:
		return ts.UF("intToF64", SF64, t)
	case fs == SF64 && tsrt == SInt:
		r := ts.UF("f64ToInt", SInt, t)
		return r
	case fs.IsSeq() && tsrt == SString, fs == SString && tsrt.IsSeq():
		// []rune <-> string
		c.trusted["[]rune<->string conversion uninterpreted"] = true
		return ts.UF("conv!"+sanitize(string(fs))+"!"+sanitize(string(tsrt)), tsrt, t)
	}
	unsupported("convert %s -> %s", from, to)
	return nil
}

func rangeWithin(flo, fhi, tlo, thi string) bool {
	if flo == "" || tlo == "" {
		return true
	}
	cmp := func(a, b string) int { // compare decimal strings with optional sign
		na, nb := strings.HasPrefix(a, "-"), strings.HasPrefix(b, "-")
		if na != nb {
			if na {
				return -1
			}
			return 1
		}
		aa, bb := strings.TrimPrefix(a, "-"), strings.TrimPrefix(b, "-")
		r := 0
		if len(aa) != len(bb) {
			if len(aa) < len(bb) {
				r = -1
			} else {
				r = 1
			}
		} else {
			r = strings.Compare(aa, bb)
		}
		if na {
			r = -r
		}
		return r
	}
	return cmp(flo, tlo) >= 0 && cmp(fhi, thi) <= 0
}

func (c *FnCtx) typeAssert(fr *Frame, st *State, x *ssa.TypeAssert) {
	ts := c.eng.ts
	tc := c.eng.tc
	v := fr.val(x.X).(*Term)
	var ok, val *Term
	if types.IsInterface(x.AssertedType) {
		it := x.AssertedType.Underlying().(*types.Interface)
		if it.NumMethods() == 0 {
			ok = ts.Not(tc.IsNilVal(v))
		} else {
			ok = c.implements(st, v, x.AssertedType)
		}
		val = v
		if x.CommaOk {
			val = ts.Ite(ok, v, tc.Zero(x.AssertedType))
		}
	} else {
		ok = tc.IsType(x.AssertedType, v)
		val = tc.Unbox(x.AssertedType, v)
		if x.CommaOk {
			val = ts.Ite(ok, val, tc.Zero(x.AssertedType))
		}
		if ok.IsFalse() {
			val = tc.Zero(x.AssertedType)
		}
	}
	if x.CommaOk {
		fr.regs[x] = Tuple{val, ok}
	} else {
		c.addObl(st, "assert-type", fmt.Sprintf("#%d %s.(%s)", c.kindOrd["assert-type"], x.X.Name(), types.TypeString(x.AssertedType, types.RelativeTo(c.eng.ld.Pkg))), ok, x.Pos(), "type assertion may panic")
		c.assumeChecked(st, ok)
		fr.regs[x] = val
	}
	if !ok.IsFalse() {
		stc := st
		if x.CommaOk {
			// facts about the unboxed value hold when ok
			stc = &State{pc: ts.And(st.pc, ok), wm: st.wm}
		}
		c.readFacts(stc, val, x.AssertedType)
		if typeKey(x.AssertedType) == "[]interface{}" && val.kind != kLit {
			bv := ts.Bound("h", SInt)
			hv := c.height(stc, v)
			c.addFactT(stc, hv, ts.Quant("forall", bv, ts.Implies(ts.And(ts.Le(ts.Int(0), bv), ts.Lt(bv, ts.Len(val))), ts.Lt(c.height(stc, ts.Nth(val, bv)), hv))))
		}
		if _, isMap := x.AssertedType.Underlying().(*types.Map); isMap {
			// domain assumption: an interface value never holds a nil map (decoders and literals never produce one)
			c.trusted["domain: interface values never hold a typed nil map"] = true
			c.addFact(stc, c.eng.ts.Gt(val, c.eng.ts.Int(0)))
		}
	}
}

// implements: does the dynamic type of v implement interface type it?
func (c *FnCtx) implements(st *State, v *Term, it types.Type) *Term {
	ts := c.eng.ts
	tc := c.eng.tc
	name := "impl!" + sanitize(types.TypeString(it, nil))
	tid := tc.TidOf(v)
	r := ts.UF(name, SBool, tid)
	iface := it.Underlying().(*types.Interface)
	// instantiate for all known boxed types and the dedicated ones
	for _, id := range tc.SortedTids() {
		t := tc.tidTypes[id]
		c.addFact(st, ts.Eq(ts.UF(name, SBool, ts.Int(int64(id))), ts.Bool(types.Implements(t, iface))))
	}
	for i := 0; i < 9; i++ {
		c.addFact(st, ts.Eq(ts.UF(name, SBool, ts.Int(int64(i))), ts.Bool(false)))
	}
	c.trusted["interface assertion on a dynamic type unknown to the package is decided by an uninterpreted predicate"] = true
	return ts.And(ts.Not(tc.IsNilVal(v)), r)
}

func (c *FnCtx) sliceOp(fr *Frame, st *State, x *ssa.Slice) {
	ts := c.eng.ts
	var s *Term
	xt := x.X.Type()
	if pt, ok := xt.Underlying().(*types.Pointer); ok {
		// slicing a pointer to array
		p := c.asPtr(fr.val(x.X), pt.Elem())
		s = c.load(st, p)
	} else {
		s = fr.val(x.X).(*Term)
	}
	n := ts.Len(s)
	lo := ts.Int(0)
	hi := n
	if x.Low != nil {
		lo = fr.val(x.Low).(*Term)
	}
	if x.High != nil {
		hi = fr.val(x.High).(*Term)
	}
	// capacity: for strings the bound is len; for slices cap >= len is unknown -> we require hi <= len unless the
	// operand was made in this function with a known capacity (ret[:cnt] with cnt <= len is the only pattern in mxj)
	bound := n
	if cp, ok := c.capOf(fr, x.X); ok {
		bound = cp
	}
	goal := ts.And(ts.Le(ts.Int(0), lo), ts.Le(lo, hi), ts.Le(hi, bound))
	c.addObl(st, "slice", fmt.Sprintf("#%d %s", c.kindOrd["slice"], srcText(c, x)), goal, x.Pos(), "slice bounds out of range")
	c.assumeChecked(st, goal)
	if bound != n {
		// reslicing beyond len within capacity exposes unknown elements
		r := ts.Fresh("reslice", s.sort)
		within := ts.Le(hi, n)
		c.addFact(st, ts.Implies(within, ts.Eq(r, ts.Extract(s, lo, ts.Sub(hi, lo)))))
		c.addFact(st, ts.Eq(ts.Len(r), ts.Sub(hi, lo)))
		fr.regs[x] = r
		return
	}
	r := ts.Extract(s, lo, ts.Sub(hi, lo))
	if s.sort != SString && r.kind == kApp && r.op == "seq.extract" {
		// elements of a sub-slice: nth(extract(s,lo,n), j) = nth(s, lo+j)
		bv := ts.Bound("j", SInt)
		ax := ts.Quant("forall", bv, ts.Implies(ts.And(ts.Le(ts.Int(0), bv), ts.Lt(bv, ts.Sub(hi, lo))), ts.Eq(ts.Nth(r, bv), ts.Nth(s, ts.Add(lo, bv)))))
		c.addFactNth(st, r, ax)
	}
	fr.regs[x] = r
}

// capOf: known capacity of a slice-valued register (only tracked for make() results flowing through a cell).
func (c *FnCtx) capOf(fr *Frame, v ssa.Value) (*Term, bool) {
	return nil, false
}

func (c *FnCtx) noteMadeSlice(st *State, s *Term, et types.Type) {}

func (c *FnCtx) indexAddr(fr *Frame, st *State, x *ssa.IndexAddr) {
	ts := c.eng.ts
	i := fr.val(x.Index).(*Term)
	xt := x.X.Type()
	if pt, ok := xt.Underlying().(*types.Pointer); ok {
		// pointer to array
		p := c.asPtr(fr.val(x.X), pt.Elem())
		c.nonNilObl(st, p, x.Pos(), "index of "+x.X.Name())
		arr := pt.Elem().Underlying().(*types.Array)
		c.addObl(st, "bounds", fmt.Sprintf("#%d %s", c.kindOrd["bounds"], srcText(c, x)), ts.And(ts.Le(ts.Int(0), i), ts.Lt(i, ts.Int(arr.Len()))), x.Pos(), "index out of range")
		fr.regs[x] = &PtrVal{cell: p.cell, obj: p.obj, root: p.root, path: append(append([]Sel{}, p.path...), Sel{isIdx: true, idx: i, typ: pt.Elem()})}
		return
	}
	s := fr.val(x.X).(*Term)
	c.addObl(st, "bounds", fmt.Sprintf("#%d %s", c.kindOrd["bounds"], srcText(c, x)), ts.And(ts.Le(ts.Int(0), i), ts.Lt(i, ts.Len(s))), x.Pos(), "index out of range")
	c.assumeChecked(st, ts.And(ts.Le(ts.Int(0), i), ts.Lt(i, ts.Len(s))))
	if o, ok := fr.origin[x.X]; ok && c.load(st, o) == s {
		fr.regs[x] = &PtrVal{cell: o.cell, obj: o.obj, root: o.root, path: append(append([]Sel{}, o.path...), Sel{isIdx: true, idx: i, typ: xt})}
		return
	}
	// detached: reads see the value; stores are outside the subset
	cell := c.newCell("tmp!"+x.X.Name(), xt)
	cell.detached = true
	st.cells[cell] = s
	fr.regs[x] = &PtrVal{cell: cell, root: xt, path: []Sel{{isIdx: true, idx: i, typ: xt}}}
}

func (c *FnCtx) lookup(fr *Frame, st *State, x *ssa.Lookup) {
	ts := c.eng.ts
	if _, isMap := x.X.Type().Underlying().(*types.Map); !isMap {
		s := fr.val(x.X).(*Term)
		i := fr.val(x.Index).(*Term)
		c.addObl(st, "bounds", fmt.Sprintf("#%d %s", c.kindOrd["bounds"], srcText(c, x)), ts.And(ts.Le(ts.Int(0), i), ts.Lt(i, ts.Len(s))), x.Pos(), "string index out of range")
		r := ts.Nth(s, i)
		c.addFact(st, ts.And(ts.Le(ts.Int(0), r), ts.Le(r, ts.Int(255))))
		fr.regs[x] = r
		return
	}
	m := fr.val(x.X).(*Term)
	k := c.toTerm(st, fr.val(x.Index), x.X.Type().Underlying().(*types.Map).Key())
	v, ok := c.mapGet(st, x.X.Type(), m, k)
	et := x.X.Type().Underlying().(*types.Map).Elem()
	val := ts.Ite(ok, v, c.eng.tc.Zero(et))
	if x.CommaOk {
		fr.regs[x] = Tuple{val, ok}
	} else {
		fr.regs[x] = val
	}
}

func (c *FnCtx) mapGet(st *State, mt types.Type, m, k *Term) (val, ok *Term) {
	ts := c.eng.ts
	mh := c.mapHeaps(st, mt)
	c.mapFacts(st, mt, m)
	dom := c.hget(st, mh.dom, mh.sdom, m)
	sel := c.hget(st, mh.sel, mh.ssel, m)
	ok = ts.Select(dom, k)
	val = ts.Select(sel, k)
	ln := c.hget(st, mh.ln, mh.sln, m)
	c.addFact(st, ts.Implies(ok, ts.Ge(ln, ts.Int(1))))
	if c.noObl == 0 && len(c.mapReads) < 400 {
		c.mapReads = append(c.mapReads, mapRead{mt: mt, m: m, k: k, ok: ok, val: val, ln: ln})
	}
	if val.sort == SVal && mh.vs == SVal && mh.ks == SString {
		// Maps are finite trees: an entry is strictly lower than the map holding it
		hv := c.height(st, val)
		hp := c.height(st, ts.App("VMap", SVal, m))
		c.addFactT(st, hv, ts.Implies(ok, ts.Lt(hv, hp)))
	}
	return
}

// height: ghost nesting height of a value (maps and lists strictly above their members) in the current heap.
func (c *FnCtx) height(st *State, v *Term) *Term {
	ts := c.eng.ts
	if v.kind == kApp && v.op == "ite" {
		// height distributes over a conditional value, so that the member facts (triggered on the height of the
		// plain member term) are found for the result of a comma-ok lookup
		return ts.Ite(v.args[0], c.height(st, v.args[1]), c.height(st, v.args[2]))
	}
	mt := types.NewMap(types.Typ[types.String], types.NewInterfaceType(nil, nil))
	mh := c.mapHeaps(st, mt)
	h := ts.UF("height", SInt, c.heap(st, mh.dom, mh.sdom), c.heap(st, mh.sel, mh.ssel), v)
	if len(ts.FreeBoundVars(h)) == 0 {
		c.addFactT(st, h, ts.And(ts.Le(ts.Int(0), h), ts.Le(h, ts.BigInt("4294967296"))))
	}
	c.trusted["domain: Maps are finite acyclic trees (nesting height below 2^32); ghost function height() is assumed, not computed"] = true
	return h
}

// mapFacts: len >= 0; nil map is empty.
func (c *FnCtx) mapFacts(st *State, mt types.Type, m *Term) {
	ts := c.eng.ts
	mh := c.mapHeaps(st, mt)
	ln := c.hget(st, mh.ln, mh.sln, m)
	c.addFact(st, ts.Ge(ln, ts.Int(0)))
	dom := c.hget(st, mh.dom, mh.sdom, m)
	empty := ts.ConstArr(ArrOf(mh.ks, SBool), ts.Bool(false))
	c.addFact(st, ts.Implies(ts.Eq(m, ts.Int(0)), ts.And(ts.Eq(ln, ts.Int(0)), ts.Eq(dom, empty))))
	c.addFact(st, ts.Implies(ts.Eq(ln, ts.Int(0)), ts.Eq(dom, empty)))
}

func (c *FnCtx) mapLen(st *State, mt types.Type, m *Term) *Term {
	_ = c.eng.ts
	mh := c.mapHeaps(st, mt)
	c.mapFacts(st, mt, m)
	return c.hget(st, mh.ln, mh.sln, m)
}

func (c *FnCtx) mapUpdate(fr *Frame, st *State, x *ssa.MapUpdate) {
	ts := c.eng.ts
	mt := x.Map.Type()
	m := fr.val(x.Map).(*Term)
	mtt := mt.Underlying().(*types.Map)
	k := c.toTerm(st, fr.val(x.Key), mtt.Key())
	v := c.toTerm(st, fr.val(x.Value), mtt.Elem())
	c.addObl(st, "nilmap", fmt.Sprintf("#%d %s", c.kindOrd["nilmap"], x.Map.Name()), ts.Not(ts.Eq(m, ts.Int(0))), x.Pos(), "assignment to entry in nil map")
	c.assumeChecked(st, ts.Not(ts.Eq(m, ts.Int(0))))
	if fr.fc != nil && fr.fc.MapStores != nil && !fr.ghost && c.noObl == 0 && typeKey(mt.Underlying()) == "map[string]interface{}" {
		// contract clause "map-stores": the condition every store into a Map made by this function must satisfy,
		// evaluated just before the store
		args := append(c.currentParams(fr, st), m, k, v)
		r := c.evalGhost(st, c.eng.ld.GhostFunc(fr.fc.MapStores.Fn), args)
		c.addObl(st, "store-cond", fmt.Sprintf("#%d %s", c.kindOrd["store-cond"], x.Map.Name()), r, x.Pos(), fr.fc.MapStores.Raw)
	}
	c.mapSet(st, mt, m, k, v)
}

func (c *FnCtx) mapSet(st *State, mt types.Type, m, k, v *Term) {
	ts := c.eng.ts
	mh := c.mapHeaps(st, mt)
	c.mapFacts(st, mt, m)
	dom := c.hget(st, mh.dom, mh.sdom, m)
	sel := c.hget(st, mh.sel, mh.ssel, m)
	ln := c.hget(st, mh.ln, mh.sln, m)
	had := ts.Select(dom, k)
	c.setHeapAt(st, mh.dom, mh.sdom, m, ts.Store(dom, k, ts.Bool(true)))
	c.setHeapAt(st, mh.sel, mh.ssel, m, ts.Store(sel, k, v))
	c.setHeapAt(st, mh.ln, mh.sln, m, ts.Ite(had, ln, ts.Add(ln, ts.Int(1))))
}

func (c *FnCtx) mapDelete(st *State, mt types.Type, m, k *Term) {
	ts := c.eng.ts
	mh := c.mapHeaps(st, mt)
	c.mapFacts(st, mt, m)
	dom := c.hget(st, mh.dom, mh.sdom, m)
	ln := c.hget(st, mh.ln, mh.sln, m)
	had := ts.Select(dom, k)
	// delete on a nil map is a no-op
	isNil := ts.Eq(m, ts.Int(0))
	c.setHeapAt(st, mh.dom, mh.sdom, m, ts.Ite(isNil, dom, ts.Store(dom, k, ts.Bool(false))))
	c.setHeapAt(st, mh.ln, mh.sln, m, ts.Ite(ts.And(had, ts.Not(isNil)), ts.Sub(ln, ts.Int(1)), ln))
}

func (c *FnCtx) rangeOp(fr *Frame, st *State, x *ssa.Range) {
	if mt, ok := x.X.Type().Underlying().(*types.Map); ok {
		_ = mt
		m := fr.val(x.X).(*Term)
		mh := c.mapHeaps(st, x.X.Type())
		it := &IterVal{isMap: true, mapTyp: x.X.Type(), m: m}
		it.dom0 = c.hget(st, mh.dom, mh.sdom, m)
		it.len0 = c.mapLen(st, x.X.Type(), m)
		it.count = c.newCell("rangecount", types.Typ[types.Int])
		c.setCell(st, it.count, c.eng.ts.Int(0))
		if fr.isTop && c.fc != nil && hasProp(c.fc.Props, "C16") && c.noObl == 0 {
			ok, why := c.eng.isCollectThenSort(fr.fn, x)
			if ok {
				c.addObl(st, "order", fmt.Sprintf("#%d collect-then-sort", c.kindOrd["order"]), c.eng.ts.Bool(true), x.Pos(), "map range only collects into a slice that is sorted afterwards")
			} else {
				c.addObl(st, "order", fmt.Sprintf("#%d single entry (%s)", c.kindOrd["order"], why), c.eng.ts.Le(it.len0, c.eng.ts.Int(1)), x.Pos(), "the result must not depend on map iteration order: range over a map of more than one entry that is not a collect-then-sort loop")
			}
		}
		it.visited = c.newCell("rangevisited", nil)
		it.visited.ghostSort = ArrOf(mh.ks, SBool)
		c.setCell(st, it.visited, c.eng.ts.ConstArr(ArrOf(mh.ks, SBool), c.eng.ts.Bool(false)))
		fr.regs[x] = it
		if refs := x.Referrers(); refs != nil {
			for _, r := range *refs {
				if nx, ok := r.(*ssa.Next); ok {
					if ord, isHead := fr.loops.heads[nx.Block()]; isHead {
						if fr.iterByLoop == nil {
							fr.iterByLoop = map[int]*IterVal{}
						}
						fr.iterByLoop[ord] = it
					}
				}
			}
		}
		return
	}
	// string range: position cell
	s := fr.val(x.X).(*Term)
	cell := c.newCell("strpos", types.Typ[types.Int])
	c.setCell(st, cell, c.eng.ts.Int(0))
	fr.regs[x] = &IterVal{str: s, pos: cell}
}

func (c *FnCtx) nextOp(fr *Frame, st *State, x *ssa.Next) {
	ts := c.eng.ts
	it := fr.val(x.Iter).(*IterVal)
	it.n++
	if it.isMap {
		// Over-approximation: each Next yields either "done" or some entry currently in the map.
		// (No claim that entries are visited once or all visited; folds needing that use ghost iterators.)
		ok := ts.Fresh("next!ok", SBool)
		mt := it.mapTyp.Underlying().(*types.Map)
		k := ts.Fresh("next!k", c.eng.tc.SortOf(mt.Key()))
		v, in := c.mapGet(st, it.mapTyp, it.m, k)
		c.addFact(st, ts.Implies(ok, in))
		c.addFact(st, ts.Implies(ts.Eq(c.mapLen(st, it.mapTyp, it.m), ts.Int(0)), ts.Not(ok)))
		// ghost count of delivered entries: while the map's key set is unchanged since the range started, an
		// iteration delivers each entry exactly once: ok => count < len, !ok => count == len
		cnt := c.getCell(st, it.count)
		mh := c.mapHeaps(st, it.mapTyp)
		c.addFact(st, ts.Ge(cnt, ts.Int(0)))
		if c.hget(st, mh.dom, mh.sdom, it.m) == it.dom0 {
			c.addFact(st, ts.Implies(ok, ts.Lt(cnt, it.len0)))
			c.addFact(st, ts.Implies(ts.Not(ok), ts.Eq(cnt, it.len0)))
			c.addFact(st, ts.Le(cnt, it.len0))
		}
		c.setCell(st, it.count, ts.Ite(ok, ts.Add(cnt, ts.Int(1)), cnt))
		// ghost set of delivered keys: a delivered key was not delivered before; on exhaustion every key was delivered
		vis := c.getCell(st, it.visited)
		c.addFact(st, ts.Implies(ok, ts.Not(ts.Select(vis, k))))
		if c.hget(st, mh.dom, mh.sdom, it.m) == it.dom0 {
			c.addFact(st, ts.Implies(ts.Not(ok), ts.Eq(vis, it.dom0)))
		}
		c.setCell(st, it.visited, ts.Ite(ok, ts.Store(vis, k, ts.Bool(true)), vis))
		if ord, isHead := fr.loops.heads[x.Block()]; isHead {
			if fr.iterByLoop == nil {
				fr.iterByLoop = map[int]*IterVal{}
			}
			fr.iterByLoop[ord] = it
		}
		fr.regs[x] = Tuple{ok, k, v}
		c.lastNext = &nextInfo{iter: it, ok: ok, key: k, val: v}
		return
	}
	pos := c.getCell(st, it.pos)
	n := ts.Len(it.str)
	ok := ts.Lt(pos, n)
	// rune decoding: ASCII bytes are themselves; otherwise the rune and its width are uninterpreted
	b := ts.Nth(it.str, pos)
	r := ts.Fresh("rune", SInt)
	w := ts.Fresh("runew", SInt)
	c.addFact(st, ts.Implies(ok, ts.And(ts.Le(ts.Int(1), w), ts.Le(w, ts.Int(4)), ts.Le(ts.Add(pos, w), n))))
	c.addFact(st, ts.Implies(ts.And(ok, ts.Lt(b, ts.Int(128))), ts.And(ts.Eq(r, b), ts.Eq(w, ts.Int(1)))))
	c.addFact(st, ts.Implies(ts.And(ok, ts.Ge(b, ts.Int(128))), ts.Ge(r, ts.Int(128))))
	c.setCell(st, it.pos, ts.Ite(ok, ts.Add(pos, w), pos))
	fr.regs[x] = Tuple{ok, pos, r}
}

type nextInfo struct {
	iter         *IterVal
	ok, key, val *Term
}

func hasProp(ps []string, p string) bool {
	for _, q := range ps {
		if q == p {
			return true
		}
	}
	return false
}
