package main

// Symbolic execution of one function over its SSA: block scheduling with state merging, loops cut at
// their heads (invariant / havoc / step), returns checked against postconditions.

import (
	"fmt"
	"go/token"
	"go/types"
	"sort"
	"strings"

	"golang.org/x/tools/go/ssa"
)

type Engine struct {
	ld        *Loaded
	ts        *TermStore
	tc        *TypeCtx
	heapSorts map[string]Sort
	trusted   map[string]bool // assumed stdlib / modelling entries used
	fuel      int
	inlineMax int
	verbose   bool
	specFns   map[*ssa.Function]*SpecInfo
	shallowMemo map[shallowKey]error
	cellSeq   int
	unrolled  map[string]int // bounded-mode loop unrolling (unused in proof mode)
	globals   map[*ssa.Global]*Cell
	usedSpecContracts map[*ssa.Function]bool
	world     *Cell
}

func NewEngine(ld *Loaded) *Engine {
	ts := NewStore()
	e := &Engine{ld: ld, ts: ts, tc: NewTypeCtx(ts), heapSorts: map[string]Sort{}, trusted: map[string]bool{}, fuel: 2, inlineMax: 3,
		specFns: map[*ssa.Function]*SpecInfo{}, usedSpecContracts: map[*ssa.Function]bool{}}
	return e
}

// Frame: one function activation (top-level or inlined).
type Frame struct {
	ctx    *FnCtx
	fn     *ssa.Function
	fc     *FuncContract
	regs   map[ssa.Value]SymVal
	cells  map[*ssa.Alloc]*Cell
	origin map[ssa.Value]*PtrVal // where a slice/array-valued register was loaded from
	params []SymVal
	olds   map[string]*Term
	ghost  bool
	isTop  bool
	rets   []retPoint
	loops  *loopInfo
	entryState *State
	predPC     map[edgeKey]*Term
	iterByLoop map[int]*IterVal
	loopMeasure map[*ssa.BasicBlock]*Term
	loopEntry   map[int]*State // loop ordinal -> state in which the loop was entered (for verifLoopSame)
}

type retPoint struct {
	st   *State
	vals []*Term
	pos  token.Pos
	nfacts int // number of facts when the return point was reached
}

type unsupportedErr struct{ msg string }

func (u unsupportedErr) Error() string { return u.msg }

func unsupported(format string, a ...interface{}) {
	panic(unsupportedErr{fmt.Sprintf(format, a...)})
}

// ---- loop structure ----

type loopInfo struct {
	rpo      []*ssa.BasicBlock
	rpoIdx   map[*ssa.BasicBlock]int
	isBack   map[[2]int]bool // edge (from,to) is a back edge
	heads    map[*ssa.BasicBlock]int // loop head -> ordinal (source order, 1-based)
	body     map[*ssa.BasicBlock]map[*ssa.BasicBlock]bool
	irreducible bool
}

func analyzeLoops(fn *ssa.Function) *loopInfo {
	li := &loopInfo{rpoIdx: map[*ssa.BasicBlock]int{}, isBack: map[[2]int]bool{}, heads: map[*ssa.BasicBlock]int{}, body: map[*ssa.BasicBlock]map[*ssa.BasicBlock]bool{}}
	if len(fn.Blocks) == 0 {
		return li
	}
	// DFS for back edges (edges to a block on the DFS stack)
	color := map[*ssa.BasicBlock]int{}
	var post []*ssa.BasicBlock
	var dfs func(b *ssa.BasicBlock)
	dfs = func(b *ssa.BasicBlock) {
		color[b] = 1
		for _, s := range b.Succs {
			switch color[s] {
			case 0:
				dfs(s)
			case 1:
				li.isBack[[2]int{b.Index, s.Index}] = true
				if !s.Dominates(b) {
					li.irreducible = true
				}
			}
		}
		color[b] = 2
		post = append(post, b)
	}
	dfs(fn.Blocks[0])
	for i := len(post) - 1; i >= 0; i-- {
		li.rpoIdx[post[i]] = len(li.rpo)
		li.rpo = append(li.rpo, post[i])
	}
	// natural loop bodies
	var heads []*ssa.BasicBlock
	for e := range li.isBack {
		h := fn.Blocks[e[1]]
		latch := fn.Blocks[e[0]]
		if li.body[h] == nil {
			li.body[h] = map[*ssa.BasicBlock]bool{h: true}
			heads = append(heads, h)
		}
		var work []*ssa.BasicBlock
		if !li.body[h][latch] {
			li.body[h][latch] = true
			work = append(work, latch)
		}
		for len(work) > 0 {
			b := work[len(work)-1]
			work = work[:len(work)-1]
			for _, p := range b.Preds {
				if _, reach := li.rpoIdx[p]; !reach {
					continue
				}
				if !li.body[h][p] {
					li.body[h][p] = true
					work = append(work, p)
				}
			}
		}
	}
	// ordinals in source order of the loop head's first positioned instruction, fallback block index
	sort.Slice(heads, func(i, j int) bool {
		pi, pj := headPos(heads[i]), headPos(heads[j])
		if pi != pj && pi.IsValid() && pj.IsValid() {
			return pi < pj
		}
		return heads[i].Index < heads[j].Index
	})
	for i, h := range heads {
		li.heads[h] = i + 1
	}
	return li
}

func headPos(b *ssa.BasicBlock) token.Pos {
	// position of the loop: smallest valid instruction position in the head block or its successors' first instrs
	best := token.NoPos
	for _, in := range b.Instrs {
		if p := in.Pos(); p.IsValid() && (best == token.NoPos || p < best) {
			best = p
		}
	}
	if best == token.NoPos {
		for _, s := range b.Succs {
			for _, in := range s.Instrs {
				if p := in.Pos(); p.IsValid() && (best == token.NoPos || p < best) {
					best = p
				}
			}
		}
	}
	return best
}

// ---- top-level verification of one function ----

func (e *Engine) newCtx(fn *ssa.Function) *FnCtx {
	return &FnCtx{eng: e, top: fn, fc: e.ld.byFn[fn], kindOrd: map[string]int{}, trusted: map[string]bool{}, layers: map[int]*layerInfo{}, layerInst: map[[2]int]bool{}}
}

func (c *FnCtx) newFrame(fn *ssa.Function) *Frame {
	return &Frame{ctx: c, fn: fn, fc: c.eng.ld.byFn[fn], regs: map[ssa.Value]SymVal{}, cells: map[*ssa.Alloc]*Cell{}, origin: map[ssa.Value]*PtrVal{}, olds: map[string]*Term{}}
}

func (c *FnCtx) newCell(name string, t types.Type) *Cell {
	c.eng.cellSeq++
	return &Cell{name: name, typ: t, id: c.eng.cellSeq}
}

// VerifyFunction generates all obligations of fn against its contract.
func (e *Engine) VerifyFunction(fn *ssa.Function) (ctx *FnCtx, err error) {
	ctx = e.newCtx(fn)
	defer func() {
		if r := recover(); r != nil {
			if u, ok := r.(unsupportedErr); ok {
				err = fmt.Errorf("outside the verified subset: %s", u.msg)
				return
			}
			panic(r)
		}
	}()
	ts := e.ts
	fr := ctx.newFrame(fn)
	fr.isTop = true
	ctx.curTopFrame = fr
	st := &State{pc: ts.Bool(true), cells: map[*Cell]*Term{}, heaps: map[string]*Term{}}
	st.wm = ts.Named("wm!entry", SInt)
	ctx.addFact(st, ts.Gt(st.wm, ts.Int(0)))
	// parameters
	for i, p := range fn.Params {
		v := e.symbolicInput(ctx, st, fmt.Sprintf("in!%s", paramName(p, i)), p.Type())
		fr.params = append(fr.params, v)
		fr.regs[p] = v
		ctx.inputs = append(ctx.inputs, v)
		ctx.inputDoc = append(ctx.inputDoc, paramName(p, i))
	}
	ctx.nilObjectFacts(st)
	// package invariant (not for the package initialiser, which establishes it)
	if fn.Name() == "init" && fn.Signature.Recv() == nil && len(fn.Params) == 0 && fn.Synthetic != "" {
		// before the initialiser runs every package variable holds its zero value
		for _, m := range fn.Pkg.Members {
			if g, ok := m.(*ssa.Global); ok {
				st.cells[e.globalCell(g)] = e.tc.Zero(g.Type().(*types.Pointer).Elem())
			}
		}
	} else {
		ctx.assumePkgInv(st)
	}
	// olds and requires
	if fr.fc != nil {
		for _, o := range fr.fc.Olds {
			gf := e.ld.GhostFunc(o.Fn)
			if gf == nil {
				return ctx, fmt.Errorf("ghost function %s missing", o.Fn)
			}
			r := ctx.evalGhost(st, gf, termArgs(fr.params))
			fr.olds[o.Name] = r
		}
		for _, rq := range fr.fc.Requires {
			gf := e.ld.GhostFunc(rq.Fn)
			r := ctx.evalGhost(st, gf, termArgs(fr.params))
			ctx.addFact(st, r)
		}
	}
	if fr.fc != nil && fr.fc.Decr != nil {
		ctx.entryMeasure = ctx.evalGhost(st, e.ld.GhostFunc(fr.fc.Decr.Fn), termArgs(fr.params))
	}
	// every loop contract must bind to a loop of this function (fail closed)
	if fr.fc != nil && len(fr.fc.Loops) > 0 {
		li := analyzeLoops(fn)
		have := map[int]bool{}
		for _, ord := range li.heads {
			have[ord] = true
		}
		for k := range fr.fc.Loops {
			if !have[k] {
				return ctx, fmt.Errorf("contract-target: loop #%d of %s does not exist (the function has %d loops)", k, fn.Name(), len(li.heads))
			}
		}
	}
	fr.entryState = st.clone()
	ctx.entryFacts = len(ctx.facts)
	ctx.entryWM = fr.entryState.wm
	ctx.stack = append(ctx.stack, fn)
	ctx.runFrame(fr, st)
	// returns
	for _, rp := range fr.rets {
		ctx.checkReturn(fr, rp)
	}
	return ctx, nil
}

func paramName(p *ssa.Parameter, i int) string {
	n := p.Name()
	if n == "" || n == "_" {
		n = fmt.Sprintf("p%d", i)
	}
	return n
}

func termArgs(vs []SymVal) []*Term {
	var out []*Term
	for _, v := range vs {
		out = append(out, v.(*Term))
	}
	return out
}

// symbolicInput creates a symbolic value of Go type t with its type invariants as facts.
func (e *Engine) symbolicInput(c *FnCtx, st *State, name string, t types.Type) *Term {
	ts := e.ts
	v := ts.Fresh(name, e.tc.SortOf(t))
	c.typeFacts(st, v, t)
	return v
}

// typeFacts adds the representation invariants of a value of type t.
func (c *FnCtx) typeFacts(st *State, v *Term, t types.Type) {
	ts := c.eng.ts
	switch u := t.Underlying().(type) {
	case *types.Basic:
		if u.Info()&types.IsInteger != 0 {
			lo, hi := intRange(u)
			if lo != "" {
				c.addFact(st, ts.And(ts.Le(ts.BigInt(lo), v), ts.Le(v, ts.BigInt(hi))))
			}
		}
	case *types.Pointer, *types.Map, *types.Chan, *types.Signature:
		c.addFact(st, ts.And(ts.Le(ts.Int(0), v), ts.Lt(v, st.wm)))
	case *types.Array:
		c.addFact(st, ts.Eq(ts.Len(v), ts.Int(u.Len())))
	case *types.Interface:
		if u.NumMethods() > 0 && v.kind != kLit {
			// a value of an interface type with methods holds nil or a value of a named (boxed) type
			c.addFactT(st, v, ts.Or(c.eng.tc.IsNilVal(v), ts.App("(_ is VBox)", SBool, v)))
		}
	case *types.Slice:
		switch u.Elem().Underlying().(type) {
		case *types.Pointer, *types.Map:
			// every element is an allocated object (or nil)
			bv := ts.Bound("e", SInt)
			el := ts.Nth(v, bv)
			c.addFact(st, ts.Quant("forall", bv, ts.Implies(ts.And(ts.Le(ts.Int(0), bv), ts.Lt(bv, ts.Len(v))), ts.And(ts.Le(ts.Int(0), el), ts.Lt(el, st.wm)))))
		}
	}
}

func intRange(b *types.Basic) (string, string) {
	switch b.Kind() {
	case types.Int, types.Int64, types.UntypedInt:
		return "-9223372036854775808", "9223372036854775807"
	case types.Int32, types.UntypedRune:
		return "-2147483648", "2147483647"
	case types.Int16:
		return "-32768", "32767"
	case types.Int8:
		return "-128", "127"
	case types.Uint8:
		return "0", "255"
	case types.Uint16:
		return "0", "65535"
	case types.Uint32:
		return "0", "4294967295"
	case types.Uint, types.Uint64, types.Uintptr:
		return "0", "18446744073709551615"
	}
	return "", ""
}

// nilObjectFacts: object 0 is nil: nil maps are empty.
func (c *FnCtx) nilObjectFacts(st *State) {
	// added lazily per map type in mapHeaps()
}

func (c *FnCtx) assumePkgInv(st *State) {
	for _, cl := range c.eng.ld.Contracts.InvExprs {
		gf := c.eng.ld.GhostFunc(cl.Fn)
		if gf == nil {
			continue
		}
		r := c.evalGhost(st, gf, nil)
		c.addFact(st, r)
	}
}

func (c *FnCtx) checkPkgInv(st *State, pos token.Pos, where string) {
	for i, cl := range c.eng.ld.Contracts.InvExprs {
		gf := c.eng.ld.GhostFunc(cl.Fn)
		if gf == nil {
			continue
		}
		r := c.evalGhost(st, gf, nil)
		c.addObl(st, "pkg-inv", fmt.Sprintf("%s#%d", where, i), r, pos, cl.Raw)
	}
}

// checkReturn emits postcondition obligations at one return point.
func (c *FnCtx) checkReturn(fr *Frame, rp retPoint) {
	e := c.eng
	if fr.isTop && rp.nfacts > 0 && rp.nfacts <= len(c.facts) {
		// facts generated by code executed after this return point was reached are guarded by other paths
		c.gap = [2]int{rp.nfacts, len(c.facts)}
		defer func() { c.gap = [2]int{} }()
	}
	// vacuity guard: this return point should be reachable under the accumulated assumptions
	c.retCovers = append(c.retCovers, &Obligation{Gap: c.gap, PC: rp.st.pc, Name: fmt.Sprintf("%s:cover:ret%d", c.top.RelString(c.top.Pkg.Pkg), len(c.retCovers)), Kind: "cover",
		Func: c.top.RelString(c.top.Pkg.Pkg), Goal: e.ts.Not(rp.st.pc), NFacts: len(c.facts), Ctx: c, Src: "return point reachable"})
	if fr.fc == nil {
		if c.wroteGlobals(fr, rp.st) {
			c.checkPkgInv(rp.st, rp.pos, "return")
		}
		return
	}
	args := termArgs(fr.params)
	args = append(args, rp.vals...)
	for _, o := range fr.fc.Olds {
		args = append(args, fr.olds[o.Name])
	}
	c.oldState = fr.entryState
	defer func() { c.oldState = nil }()
	for i, en := range fr.fc.Ensures {
		gf := e.ld.GhostFunc(en.Fn)
		r := c.evalGhost(rp.st, gf, args)
		c.addObl(rp.st, "post", fmt.Sprintf("ens%d@ret%d", i, c.kindOrd["ret"]), r, rp.pos, en.Raw)
	}
	c.kindOrd["ret"]++
	c.checkFrame(fr, rp)
	if c.wroteGlobals(fr, rp.st) {
		c.checkPkgInv(rp.st, rp.pos, "return")
	}
}

// wroteGlobals: did this path (possibly) change a package variable of the package under verification?
func (c *FnCtx) wroteGlobals(fr *Frame, st *State) bool {
	for cell, v := range st.cells {
		if cell.global != nil && cell.init != nil && v != cell.init {
			return true
		}
	}
	return false
}

// checkFrame: every global / heap changed at return must be permitted by the modifies clause.
func (c *FnCtx) checkFrame(fr *Frame, rp retPoint) {
	ts := c.eng.ts
	allowed := map[string]bool{}
	var ptrTargets []modTarget
	for _, m := range fr.fc.Modifies {
		for _, mt := range c.resolveModifiesAll(fr.entryState, fr.fn, m, termArgs(fr.params)) {
			if mt.global != nil {
				allowed["g:"+mt.global.Name()] = true
			} else if mt.all {
				allowed["*"] = true
			} else {
				ptrTargets = append(ptrTargets, mt)
			}
		}
	}
	if allowed["*"] {
		return
	}
	// globals
	var cells []*Cell
	for cell := range rp.st.cells {
		cells = append(cells, cell)
	}
	sort.Slice(cells, func(i, j int) bool { return cells[i].id < cells[j].id })
	for _, cell := range cells {
		if cell.global == nil || cell.init == nil {
			continue
		}
		v := rp.st.cells[cell]
		if v == cell.init || allowed["g:"+cell.global.Name()] {
			continue
		}
		c.addObl(rp.st, "frame-global", cell.global.Name(), ts.Eq(v, cell.init), rp.pos, "package variable "+cell.global.Name()+" not in modifies")
	}
	// heaps: objects existing at entry must be unchanged unless listed
	var hs []string
	for h := range rp.st.heaps {
		hs = append(hs, h)
	}
	sort.Strings(hs)
	for _, h := range hs {
		cur := rp.st.heaps[h]
		ent := c.heap(fr.entryState, h, c.heapSort(h))
		if cur == ent {
			continue
		}
		if strings.HasPrefix(h, "G:") && !strings.HasPrefix(h, "G:buf") {
			// ghost heaps of abstract stdlib objects (stream positions...) are governed by posts, not frames
			continue
		}
		// every store node on the way from the entry heap to the current heap, under the path guard of the
		// ite branches it sits in, must target a fresh object or a permitted one (or rewrite the same value)
		wholeOK := false
		for _, mt := range ptrTargets {
			if mt.heap == h && mt.obj == nil {
				wholeOK = true
			}
		}
		if wholeOK {
			continue
		}
		seen := map[[2]int]bool{}
		var walk func(t *Term, guard *Term)
		check := func(o *Term, guard *Term, same *Term) {
			// object 0 is nil: real stores to it are excluded by nilmap / nilptr obligations; havoc "stores" may name it
			alts := []*Term{ts.Ge(o, fr.entryState.wm), ts.Eq(o, ts.Int(0))}
			for _, mt := range ptrTargets {
				if mt.heap == h {
					alts = append(alts, ts.Eq(o, mt.obj))
				}
			}
			if same != nil {
				alts = append(alts, same)
			}
			c.addObl(rp.st, "frame-heap", fmt.Sprintf("#%d %s", c.kindOrd["frame-heap"], h), ts.Implies(guard, ts.Or(alts...)), rp.pos, "write to "+h+" outside modifies and not fresh")
		}
		walk = func(t *Term, guard *Term) {
			if t == ent || guard.IsFalse() || seen[[2]int{t.id, guard.id}] {
				return
			}
			seen[[2]int{t.id, guard.id}] = true
			switch {
			case t.kind == kApp && t.op == "store":
				c.frameFacts(t.args[0], t.args[1])
				check(t.args[1], guard, ts.Eq(t.args[2], ts.Select(t.args[0], t.args[1])))
				walk(t.args[0], guard)
			case t.kind == kApp && t.op == "ite":
				walk(t.args[1], ts.And(guard, t.args[0]))
				walk(t.args[2], ts.And(guard, ts.Not(t.args[0])))
			default:
				if li, ok := c.layers[t.id]; ok {
					for _, e := range li.except {
						check(e, guard, nil)
					}
					walk(li.old, guard)
					return
				}
				c.addObl(rp.st, "frame-heap", h, ts.Not(guard), rp.pos, "heap "+h+" changed wholesale; not in modifies")
			}
		}
		walk(cur, ts.Bool(true))
	}
}

// storeChain walks store/ite structure down to base; returns object ids written.
func (c *FnCtx) storeChain(cur, base *Term) (objs []*Term, whole bool) {
	seen := map[int]bool{}
	var walk func(t *Term)
	walk = func(t *Term) {
		if t == base || seen[t.id] {
			return
		}
		seen[t.id] = true
		if t.kind == kApp && t.op == "store" {
			objs = append(objs, t.args[1])
			walk(t.args[0])
			return
		}
		if t.kind == kApp && t.op == "ite" {
			walk(t.args[1])
			walk(t.args[2])
			return
		}
		if li, ok := c.layers[t.id]; ok {
			// a layered heap agrees with its older heap below a watermark >= the entry watermark, except at li.except
			objs = append(objs, li.except...)
			walk(li.old)
			return
		}
		whole = true
	}
	walk(cur)
	return
}

// ---- block scheduling ----

type edgeKey struct{ from, to int }

// runFrame executes all blocks of fr.fn from state st; return points accumulate in fr.rets.
func (c *FnCtx) runFrame(fr *Frame, st *State) {
	if fr.fn.Blocks == nil {
		unsupported("function %s has no body", fr.fn)
	}
	if fr.loops == nil {
		fr.loops = analyzeLoops(fr.fn)
		if fr.loops.irreducible {
			unsupported("irreducible control flow in %s", fr.fn)
		}
	}
	c.runRegion(fr, fr.loops.rpo, fr.fn.Blocks[0], st, nil)
}

// runRegion executes the blocks of `order` (RPO) starting at entry with state st.
// If loopHead != nil the region is the body of that loop being dry-run: entry==loopHead is not treated as a head again.
func (c *FnCtx) runRegion(fr *Frame, order []*ssa.BasicBlock, entry *ssa.BasicBlock, st *State, dryHead *ssa.BasicBlock) {
	li := fr.loops
	inRegion := map[*ssa.BasicBlock]bool{}
	for _, b := range order {
		inRegion[b] = true
	}
	edges := map[edgeKey]*State{}
	for _, b := range order {
		var cur *State
		if b == entry {
			cur = st
		} else {
			var ins []*State
			for _, p := range b.Preds {
				if li.isBack[[2]int{p.Index, b.Index}] {
					continue
				}
				if s, ok := edges[edgeKey{p.Index, b.Index}]; ok {
					ins = append(ins, s)
				}
			}
			if len(ins) == 0 {
				continue // unreachable in this region
			}
			cur = c.merge(ins)
		}
		if cur.pc.IsFalse() {
			continue
		}
		if ord, isHead := li.heads[b]; isHead && b != dryHead {
			cur = c.enterLoop(fr, b, ord, cur)
		}
		c.execBlock(fr, b, cur, func(succ *ssa.BasicBlock, s *State) {
			if li.isBack[[2]int{b.Index, succ.Index}] {
				if dryHead == nil || succ != dryHead {
					c.backEdge(fr, succ, s, b)
				}
				return
			}
			if !inRegion[succ] {
				return // leaving a dry-run region
			}
			if s.pc.IsFalse() {
				return
			}
			edges[edgeKey{b.Index, succ.Index}] = s
			if fr.predPC == nil {
				fr.predPC = map[edgeKey]*Term{}
			}
			fr.predPC[edgeKey{b.Index, succ.Index}] = s.pc
		})
	}
}

// enterLoop: assert invariants on entry, havoc what the body may change, assume invariants.
func (c *FnCtx) enterLoop(fr *Frame, h *ssa.BasicBlock, ord int, st *State) *State {
	ts := c.eng.ts
	li := fr.loops
	var lc *LoopContract
	if fr.fc != nil {
		lc = fr.fc.Loops[ord]
	}
	// 1. invariants hold on entry
	delete(fr.loopEntry, ord) // verifLoopSame: on entry the loop-entry state is the current one
	c.loopInvs(fr, h, ord, lc, st, "inv-init")
	// 2. discover what the body writes (dry run; no obligations, facts discarded)
	var body []*ssa.BasicBlock
	for _, b := range li.rpo {
		if li.body[h][b] {
			body = append(body, b)
		}
	}
	savedLog := c.writeLog
	wl := newWriteLog()
	c.writeLog = wl
	nf := len(c.facts)
	// memo tables of "fact already added" must not remember facts that are discarded with the dry run
	savedSeen := map[string]bool{}
	for k, v := range c.specSeen {
		savedSeen[k] = v
	}
	savedLayerInst := map[[2]int]bool{}
	for k, v := range c.layerInst {
		savedLayerInst[k] = v
	}
	c.noObl++
	maxID := c.eng.ts.n
	dry := st.clone()
	savedRets := len(fr.rets)
	c.runRegion(fr, body, h, dry, h)
	fr.rets = fr.rets[:savedRets]
	c.noObl--
	c.facts = c.facts[:nf]
	c.triggers = c.triggers[:nf]
	c.factGuarded = c.factGuarded[:nf]
	c.factPC = c.factPC[:nf]
	c.factTag = c.factTag[:nf]
	if c.specSeen != nil {
		c.specSeen = savedSeen
	}
	c.layerInst = savedLayerInst
	for k := range c.trigNth {
		if k >= nf {
			delete(c.trigNth, k)
		}
	}
	c.writeLog = savedLog
	// 3. havoc
	out := st.clone()
	if wl.wm {
		nw := ts.Fresh(fmt.Sprintf("lp%d!wm", ord), SInt)
		c.addFact(out, ts.Ge(nw, st.wm))
		out.wm = nw
		if c.writeLog != nil {
			c.writeLog.wm = true
		}
	}
	var cells []*Cell
	for cell := range wl.cells {
		cells = append(cells, cell)
	}
	sort.Slice(cells, func(i, j int) bool { return cells[i].id < cells[j].id })
	for _, cell := range cells {
		if _, live := st.cells[cell]; !live && cell.global == nil {
			continue // allocated inside the loop body
		}
		if cell.typ == nil {
			c.setCell(out, cell, ts.Fresh(fmt.Sprintf("lp%d!%s", ord, cell.name), cell.ghostSort))
			continue
		}
		nv := ts.Fresh(fmt.Sprintf("lp%d!%s", ord, cell.name), c.eng.tc.SortOf(cell.typ))
		c.typeFacts(out, nv, cell.typ)
		c.setCell(out, cell, nv)
	}
	var hs []string
	for hname := range wl.heaps {
		hs = append(hs, hname)
	}
	for hname := range wl.whole {
		if _, ok := wl.heaps[hname]; !ok {
			hs = append(hs, hname)
		}
	}
	sort.Strings(hs)
	for _, hname := range hs {
		srt := c.heapSort(hname)
		objs := wl.heaps[hname]
		precise := !wl.whole[hname]
		freshLayer := false
		if lc != nil {
			for _, hv := range lc.Havoc {
				if hv == "fresh-maps" && (strings.HasPrefix(hname, "Mdom:map[string]interface{}") || strings.HasPrefix(hname, "Msel:map[string]interface{}") || strings.HasPrefix(hname, "Mlen:map[string]interface{}")) && c.entryWM != nil {
					freshLayer = true
				}
				if hv == "maps" && (strings.HasPrefix(hname, "Mdom:map[string]interface{}") || strings.HasPrefix(hname, "Msel:map[string]interface{}") || strings.HasPrefix(hname, "Mlen:map[string]interface{}")) {
					precise = false
				}
				if hv == hname {
					precise = false
				}
			}
		}
		// objects written: loop-invariant ids (havocked individually), ids allocated inside the loop
		// (objects below the watermark at loop entry keep their content), anything else: whole heap.
		var inv []*Term
		seenO := map[int]bool{}
		layered := false
		assumed := false
		for _, o := range objs {
			if seenO[o.id] {
				continue
			}
			seenO[o.id] = true
			switch {
			case o.id <= maxID || c.eng.ts.builtFrom(o, maxID):
				inv = append(inv, o)
			case wl.alloc[o.id]:
				layered = true
			default:
				// a target computed inside the loop: treated as an object allocated after loop entry; every
				// such store in the body carries a "loop-frame" obligation that it really is (or is one of inv)
				layered = true
				assumed = true
			}
		}
		_, es := srt.ArrParts()
		switch {
		case freshLayer:
			// "havoc fresh-maps": every Map allocated since the verified function was entered may have changed, every
			// older one is unchanged; each store in the body carries a loop-frame obligation that its target is that young
			old := c.heap(st, hname, srt)
			nh := ts.Fresh(fmt.Sprintf("lp%d!F!%s", ord, hname), srt)
			c.layers[nh.id] = &layerInfo{wm: c.entryWM, old: old, fresh: true}
			out.heaps[hname] = nh
			c.loopAssume = append(c.loopAssume, loopAssumption{fr: fr, head: h, heap: hname, wm: c.entryWM})
			if c.writeLog != nil {
				c.writeLog.whole[hname] = true
			}
		case !precise:
			c.setHeapWhole(out, hname, ts.Fresh(fmt.Sprintf("lp%d!H!%s", ord, hname), srt))
		case layered:
			old := c.heap(st, hname, srt)
			nh := ts.Fresh(fmt.Sprintf("lp%d!L!%s", ord, hname), srt)
			c.layers[nh.id] = &layerInfo{wm: st.wm, old: old, except: inv}
			out.heaps[hname] = nh
			if assumed {
				c.loopAssume = append(c.loopAssume, loopAssumption{fr: fr, head: h, heap: hname, wm: st.wm, except: inv})
			}
			if c.writeLog != nil {
				// propagate to an enclosing dry run: same classification there
				for _, o := range objs {
					c.writeLog.heaps[hname] = append(c.writeLog.heaps[hname], o)
				}
				for id := range wl.alloc {
					c.writeLog.alloc[id] = true
				}
			}
		default:
			for _, o := range inv {
				c.setHeapAt(out, hname, srt, o, ts.Fresh(fmt.Sprintf("lp%d!%s", ord, hname), es))
			}
		}
	}
	// 4. assume invariants
	if fr.loopEntry == nil {
		fr.loopEntry = map[int]*State{}
	}
	fr.loopEntry[ord] = st
	{
		saved := c.curTag
		c.curTag = 1
		c.loopInvs(fr, h, ord, lc, out, "assume")
		c.curTag = saved
	}
	if lc != nil && lc.Decr != nil {
		if fr.loopMeasure == nil {
			fr.loopMeasure = map[*ssa.BasicBlock]*Term{}
		}
		fr.loopMeasure[h] = c.loopMeasureAt(fr, lc, out)
	}
	return out
}

func (c *FnCtx) backEdge(fr *Frame, h *ssa.BasicBlock, st *State, from *ssa.BasicBlock) {
	ord := fr.loops.heads[h]
	c.curLatch = fmt.Sprintf("@b%d", from.Index)
	defer func() { c.curLatch = "" }()
	var lc *LoopContract
	if fr.fc != nil {
		lc = fr.fc.Loops[ord]
	}
	if lc != nil && len(lc.Invs) > 0 && c.noObl == 0 && fr.isTop {
		// vacuity guard: the path to this back edge should be reachable under the accumulated assumptions
		c.backCovers = append(c.backCovers, &Obligation{Name: fmt.Sprintf("%s:cover:back loop%d%s", c.top.RelString(c.top.Pkg.Pkg), ord, c.curLatch), Kind: "cover",
			Func: c.top.RelString(c.top.Pkg.Pkg), Goal: c.eng.ts.Not(st.pc), NFacts: len(c.facts), PC: st.pc, Ctx: c, Src: "loop back edge reachable"})
		c.backCovers = append(c.backCovers, &Obligation{Name: fmt.Sprintf("%s:cover:back loop%d%s (basic)", c.top.RelString(c.top.Pkg.Pkg), ord, c.curLatch), Kind: "cover", BasicOnly: true,
			Func: c.top.RelString(c.top.Pkg.Pkg), Goal: c.eng.ts.Not(st.pc), NFacts: len(c.facts), PC: st.pc, Ctx: c, Src: "loop back edge reachable in the model of code and libraries alone"})
	}
	c.loopInvs(fr, h, ord, lc, st, "inv-step")
	if lc != nil && lc.Decr != nil && fr.loopMeasure[h] != nil {
		ts := c.eng.ts
		m0 := fr.loopMeasure[h]
		m1 := c.loopMeasureAt(fr, lc, st)
		c.addObl(st, "variant", fmt.Sprintf("loop%d", ord), ts.And(ts.Le(ts.Int(0), m0), ts.Lt(m1, m0)), headPos(h), "decreases "+lc.Decr.Raw)
	}
}

func (c *FnCtx) loopMeasureAt(fr *Frame, lc *LoopContract, st *State) *Term {
	gf := c.eng.ld.GhostFunc(lc.Decr.Fn)
	if gf == nil {
		unsupported("decreases function %s missing", lc.Decr.Fn)
	}
	args := c.currentParams(fr, st)
	for _, o := range fr.fc.Olds {
		args = append(args, fr.olds[o.Name])
	}
	for _, lr := range lc.Decr.Locals {
		args = append(args, c.localValue(fr, st, lr))
	}
	c.curFrame = fr
	return c.evalGhost(st, gf, args)
}

// loopInvs evaluates the loop's invariants in st and asserts (mode inv-init / inv-step) or assumes them.
func (c *FnCtx) loopInvs(fr *Frame, h *ssa.BasicBlock, ord int, lc *LoopContract, st *State, mode string) {
	// automatic (checked like any other) invariant of compiler-generated slice range loops:
	//   rangeindex >= -1  and  (rangeindex == -1 or rangeindex < len)
	if h.Comment == "rangeindex.loop" {
		ts := c.eng.ts
		var bound *Term
		for _, in := range h.Instrs {
			if bo, ok := in.(*ssa.BinOp); ok && bo.Op == token.LSS {
				if v, ok := fr.regs[bo.Y]; ok {
					if t, ok := v.(*Term); ok {
						bound = t
					}
				}
			}
		}
		for _, in := range h.Instrs {
			if sto, ok := in.(*ssa.Store); ok {
				if a, ok := sto.Addr.(*ssa.Alloc); ok && a.Comment == "rangeindex" {
					if cell, ok := fr.cells[a]; ok {
						v := c.getCell(st, cell)
						g := ts.Ge(v, ts.Int(-1))
						if bound != nil {
							g = ts.And(g, ts.Or(ts.Eq(v, ts.Int(-1)), ts.Lt(v, bound)))
						}
						if mode == "assume" {
							c.addFact(st, g)
						} else {
							c.addObl(st, mode, fmt.Sprintf("loop%d#auto-rangeindex%s", ord, c.curLatch), g, headPos(h), "-1 <= rangeindex < len")
						}
					}
				}
			}
		}
	}
	if lc == nil {
		return
	}
	c.curFrame = fr
	savedOld := c.oldState
	c.oldState = fr.entryState
	defer func() { c.oldState = savedOld }()
	for i, inv := range lc.Invs {
		gf := c.eng.ld.GhostFunc(inv.Fn)
		if gf == nil {
			unsupported("invariant function %s missing", inv.Fn)
		}
		args := c.currentParams(fr, st)
		for _, o := range fr.fc.Olds {
			args = append(args, fr.olds[o.Name])
		}
		for _, lr := range inv.Locals {
			args = append(args, c.localValue(fr, st, lr))
		}
		r := c.evalGhost(st, gf, args)
		if mode == "assume" {
			c.addFact(st, r)
		} else {
			c.addObl(st, mode, fmt.Sprintf("loop%d#%d%s", ord, i, c.curLatch), r, headPos(h), inv.Raw)
			// the clauses are checked in order: a later clause may rely on the earlier ones at the same point
			c.assumeChecked(st, r)
		}
	}
}

// localValue reads the current value of a source-level local variable.
func (c *FnCtx) localValue(fr *Frame, st *State, lr *LocalRef) *Term {
	for a, cell := range fr.cells {
		if a.Pos() == lr.Var.Pos() {
			return c.getCell(st, cell)
		}
	}
	// escaping local: heap object held in register
	for _, b := range fr.fn.Blocks {
		for _, in := range b.Instrs {
			if a, ok := in.(*ssa.Alloc); ok && a.Pos() == lr.Var.Pos() {
				if v, ok := fr.regs[a]; ok {
					p := c.asPtr(v, a.Type().(*types.Pointer).Elem())
					return c.load(st, p)
				}
			}
		}
	}
	// parameters are stored into local cells named like the parameter
	for i, p := range fr.fn.Params {
		if p.Name() == lr.Name {
			_ = i
			for a, cell := range fr.cells {
				if a.Comment == lr.Name {
					return c.getCell(st, cell)
				}
			}
		}
	}
	unsupported("invariant refers to local %s which is not allocated at the loop head", lr.Name)
	return nil
}

// execBlock runs the instructions of b; emit(succ, state) is called for each outgoing edge.
func (c *FnCtx) execBlock(fr *Frame, b *ssa.BasicBlock, st *State, emit func(*ssa.BasicBlock, *State)) {
	ts := c.eng.ts
	c.blockStack = append(c.blockStack, blockRef{fr, b})
	defer func() { c.blockStack = c.blockStack[:len(c.blockStack)-1] }()
	for _, in := range b.Instrs {
		switch x := in.(type) {
		case *ssa.If:
			cond := fr.val(x.Cond).(*Term)
			t := st.clone()
			t.pc = ts.And(st.pc, cond)
			f := st
			f.pc = ts.And(st.pc, ts.Not(cond))
			emit(b.Succs[0], t)
			emit(b.Succs[1], f)
			return
		case *ssa.Jump:
			emit(b.Succs[0], st)
			return
		case *ssa.Return:
			var vals []*Term
			for i, r := range x.Results {
				vals = append(vals, c.toTerm(st, fr.val(r), fr.fn.Signature.Results().At(i).Type()))
			}
			fr.rets = append(fr.rets, retPoint{st: st, vals: vals, pos: x.Pos(), nfacts: len(c.facts)})
			return
		case *ssa.Panic:
			c.addObl(st, "panic", fmt.Sprintf("#%d", c.kindOrd["panic"]), ts.Bool(false), x.Pos(), "explicit panic reachable")
			return
		default:
			c.execInstr(fr, st, in)
			if st.pc.IsFalse() {
				return
			}
		}
	}
}

func (fr *Frame) val(v ssa.Value) SymVal {
	if r, ok := fr.regs[v]; ok {
		return r
	}
	c := fr.ctx
	switch x := v.(type) {
	case *ssa.Const:
		return c.constVal(x)
	case *ssa.Global:
		return &PtrVal{cell: c.eng.globalCell(x), root: x.Type().(*types.Pointer).Elem()}
	case *ssa.Function:
		return &FuncVal{fn: x}
	case *ssa.Builtin:
		return &FuncVal{}
	case *ssa.FreeVar:
		unsupported("free variable %s (closure) in %s not bound", x.Name(), fr.fn)
	}
	unsupported("use of undefined register %s (%T) in %s", v.Name(), v, fr.fn)
	return nil
}

// currentParams: inside the body (loop invariants, loop measures) a parameter name denotes the current value of
// the parameter variable, which Go allows to be reassigned; contracts' requires/ensures see the entry values.
func (c *FnCtx) currentParams(fr *Frame, st *State) []*Term {
	out := termArgs(fr.params)
	for i, p := range fr.fn.Params {
		refs := p.Referrers()
		if refs == nil {
			continue
		}
		for _, r := range *refs {
			if sto, ok := r.(*ssa.Store); ok && sto.Val == p {
				if a, ok := sto.Addr.(*ssa.Alloc); ok && a.Comment == p.Name() {
					if cell, ok := fr.cells[a]; ok {
						out[i] = c.getCell(st, cell)
					} else if v, ok := fr.regs[a]; ok {
						if pv, ok := v.(*PtrVal); ok {
							out[i] = c.load(st, pv)
						}
					}
				}
			}
		}
	}
	return out
}
