package main

// Ownership ("own") obligations, discharged by a data-flow analysis over the SSA instead of SMT.
//
// The SMT model treats slices as immutable sequence values, so it cannot see a write that lands in a backing array
// shared with somebody else (append into spare capacity of a re-sliced buffer, copy, element store). This pass closes
// that gap with a discipline: every in-place slice write (append / copy / element store) must target a backing array
// that this activation owns: allocated here (make, literal, nil), produced by append from such, returned by a callee
// whose contract says `fresh-result`, or reachable through a pointer parameter listed in `modifies`.

import (
	"fmt"
	"go/token"
	"go/types"
	"sort"
	"strings"

	"golang.org/x/tools/go/ssa"
)

type originSet map[string]bool

type originAnalysis struct {
	e      *Engine
	fn     *ssa.Function
	stores map[*ssa.Alloc][]ssa.Value
}

func newOriginAnalysis(e *Engine, fn *ssa.Function) *originAnalysis {
	oa := &originAnalysis{e: e, fn: fn, stores: map[*ssa.Alloc][]ssa.Value{}}
	for _, b := range fn.Blocks {
		for _, in := range b.Instrs {
			if st, ok := in.(*ssa.Store); ok {
				if a, ok := st.Addr.(*ssa.Alloc); ok {
					oa.stores[a] = append(oa.stores[a], st.Val)
				}
			}
		}
	}
	return oa
}

// asParam: v is parameter p, or a load of the local cell that only ever holds parameter p.
func (oa *originAnalysis) asParam(v ssa.Value) *ssa.Parameter {
	if p, ok := v.(*ssa.Parameter); ok {
		return p
	}
	if u, ok := v.(*ssa.UnOp); ok && u.Op == token.MUL {
		if a, ok := u.X.(*ssa.Alloc); ok {
			ss := oa.stores[a]
			if len(ss) == 1 {
				if p, ok := ss[0].(*ssa.Parameter); ok {
					return p
				}
			}
		}
	}
	return nil
}

func (oa *originAnalysis) origin(v ssa.Value) originSet {
	res := originSet{}
	seen := map[ssa.Value]bool{}
	var walk func(v ssa.Value)
	walk = func(v ssa.Value) {
		if seen[v] {
			return
		}
		seen[v] = true
		if p := oa.asParam(v); p != nil {
			res["param:"+p.Name()] = true
			return
		}
		switch x := v.(type) {
		case *ssa.Const, *ssa.MakeSlice, *ssa.Alloc, *ssa.Convert:
			res["fresh"] = true
		case *ssa.Slice:
			if _, isStr := x.X.Type().Underlying().(*types.Basic); isStr {
				res["fresh"] = true
				return
			}
			walk(x.X)
		case *ssa.Phi:
			for _, ed := range x.Edges {
				walk(ed)
			}
		case *ssa.ChangeType:
			walk(x.X)
		case *ssa.UnOp:
			if x.Op != token.MUL {
				res["heap"] = true
				return
			}
			if p := oa.asParam(x.X); p != nil {
				res["deref:"+p.Name()] = true
				return
			}
			switch a := x.X.(type) {
			case *ssa.Alloc:
				if len(oa.stores[a]) == 0 {
					res["fresh"] = true // zero value: nil slice
				}
				for _, sv := range oa.stores[a] {
					walk(sv)
				}
			case *ssa.Global:
				res["global:"+a.Name()] = true
			case *ssa.IndexAddr:
				walk(a.X) // element of a slice of slices / arrays: inherits the container's origin
			case *ssa.FieldAddr:
				if p := oa.asParam(a.X); p != nil {
					res["field:"+p.Name()] = true
				} else if _, ok := a.X.(*ssa.Alloc); ok {
					res["fresh"] = true
				} else {
					res["heap"] = true
				}
			default:
				res["heap"] = true
			}
		case *ssa.Call:
			if b, ok := x.Call.Value.(*ssa.Builtin); ok && b.Name() == "append" {
				walk(x.Call.Args[0])
				return
			}
			oa.callOrigin(x, res)
		case *ssa.Extract:
			if c, ok := x.Tuple.(*ssa.Call); ok {
				oa.callOrigin(c, res)
				return
			}
			res["heap"] = true
		default:
			res["heap"] = true
		}
	}
	walk(v)
	return res
}

func (oa *originAnalysis) callOrigin(c *ssa.Call, res originSet) {
	if callee := c.Call.StaticCallee(); callee != nil {
		if cfc := oa.e.ld.byFn[callee]; cfc != nil && cfc.FreshResult {
			res["fresh"] = true
			return
		}
		switch callee.String() {
		case "strings.Split", "strings.Fields", "bytes.Replace", "encoding/json.Marshal", "encoding/json.MarshalIndent", "encoding/xml.Marshal", "encoding/xml.MarshalIndent":
			res["fresh"] = true // documented to return newly allocated slices
			return
		}
		res["call:"+callee.Name()] = true
		return
	}
	res["call:dynamic"] = true
}

func (oa *originAnalysis) allowed(fc *FuncContract, tag string) bool {
	if tag == "fresh" {
		return true
	}
	if fc == nil {
		return false
	}
	if fc.OwnsLists && tag == "heap" {
		return true
	}
	for _, m := range fc.Modifies {
		m = strings.TrimSpace(m)
		if strings.HasPrefix(tag, "deref:") && m == "*"+tag[6:] {
			return true
		}
		if strings.HasPrefix(tag, "param:") && m == "elems("+tag[6:]+")" {
			return true
		}
		if m == "all" {
			return true
		}
	}
	return false
}

func (e *Engine) ownObligations(fn *ssa.Function, fc *FuncContract, ctx *FnCtx) []*Obligation {
	if fn.Blocks == nil {
		return nil
	}
	oa := newOriginAnalysis(e, fn)
	fname := fn.RelString(fn.Pkg.Pkg)
	var out []*Obligation
	n := 0
	emit := func(pos token.Pos, name, src string, tags originSet, what string) {
		var bad []string
		for t := range tags {
			if !oa.allowed(fc, t) {
				bad = append(bad, t)
			}
		}
		sort.Strings(bad)
		o := &Obligation{Name: name, Kind: "own", Func: fname, Ctx: ctx, Solver: "ssa-dataflow", Src: src}
		if pos.IsValid() {
			o.Pos = e.ld.Fset.Position(pos)
		}
		if fc != nil {
			o.Props = fc.Props
		}
		if len(bad) == 0 {
			o.Status = "unsat"
		} else {
			o.Status = "failed"
			o.Output = fmt.Sprintf("%s: the slice may share its backing array with memory not owned by this call (origin: %s)", what, strings.Join(bad, ", "))
		}
		out = append(out, o)
	}
	check := func(pos token.Pos, what string, target ssa.Value) {
		emit(pos, fmt.Sprintf("%s:own:#%d %s", fname, n, what), what+" writes into a backing array this activation must own", oa.origin(target), what)
		n++
	}
	for _, b := range fn.Blocks {
		for _, in := range b.Instrs {
			switch x := in.(type) {
			case *ssa.Call:
				if bi, ok := x.Call.Value.(*ssa.Builtin); ok {
					switch bi.Name() {
					case "append":
						if _, isSlice := x.Call.Args[0].Type().Underlying().(*types.Slice); isSlice {
							check(x.Pos(), "append", x.Call.Args[0])
						}
					case "copy":
						check(x.Pos(), "copy", x.Call.Args[0])
					}
				}
			case *ssa.Store:
				if ia, ok := x.Addr.(*ssa.IndexAddr); ok {
					if _, isSlice := ia.X.Type().Underlying().(*types.Slice); isSlice {
						check(x.Pos(), "element store", ia.X)
					}
				}
				// a slice stored through a pointer parameter must be owned too (the caller will append to it)
				if p := oa.asParam(x.Addr); p != nil {
					if _, isSlice := x.Val.Type().Underlying().(*types.Slice); isSlice {
						emit(x.Pos(), fmt.Sprintf("%s:own:#%d store *%s", fname, n, p.Name()), "slice stored through *"+p.Name()+" must be owned (fresh or derived from *"+p.Name()+")", oa.origin(x.Val), "store through pointer parameter")
						n++
					}
				}
			case *ssa.Return:
				if fc != nil && fc.FreshResult {
					for i, r := range x.Results {
						if _, isSlice := r.Type().Underlying().(*types.Slice); !isSlice {
							continue
						}
						tags := oa.origin(r)
						var bad originSet = originSet{}
						for t := range tags {
							if t != "fresh" {
								bad[t] = true
							}
						}
						o := &Obligation{Name: fmt.Sprintf("%s:own:fresh-result#%d.%d", fname, n, i), Kind: "own", Func: fname, Ctx: ctx, Solver: "ssa-dataflow", Props: fc.Props,
							Src: "fresh-result: returned slice must be freshly allocated", Status: "unsat"}
						if len(bad) > 0 {
							var bs []string
							for t := range bad {
								bs = append(bs, t)
							}
							sort.Strings(bs)
							o.Status = "failed"
							o.Output = "returned slice may alias memory held by someone else (origin: " + strings.Join(bs, ", ") + ")"
						}
						if x.Pos().IsValid() {
							o.Pos = e.ld.Fset.Position(x.Pos())
						}
						out = append(out, o)
						n++
					}
				}
			}
		}
	}
	return out
}

func (e *Engine) freshResultObligations(fn *ssa.Function, fc *FuncContract, ctx *FnCtx) []*Obligation {
	return nil // emitted by ownObligations at each return
}

func sameValue(a, b ssa.Value) bool {
	if a == b {
		return true
	}
	// len(x) evaluated twice on the same operand
	ca, ok1 := a.(*ssa.Call)
	cb, ok2 := b.(*ssa.Call)
	if ok1 && ok2 {
		ba, o1 := ca.Call.Value.(*ssa.Builtin)
		bb, o2 := cb.Call.Value.(*ssa.Builtin)
		if o1 && o2 && ba.Name() == "len" && bb.Name() == "len" && ca.Call.Args[0] == cb.Call.Args[0] {
			return true
		}
	}
	return false
}

// ---- information-flow ("depends") obligations, also discharged on the SSA ----
//
//   depends-only P : f, g     parameter P may only be passed on as an argument to f or g (never branched on,
//                             computed with, or stored)  — e.g. the cast flag of the decoders
//   opaque-result f           results of calls to f may only be stored as map values (MapUpdate value operand)
//                             — so the shape and keys of the Map being built cannot depend on them

func (e *Engine) dependsObligations(fn *ssa.Function, fc *FuncContract, ctx *FnCtx) []*Obligation {
	if fn.Blocks == nil || fc == nil {
		return nil
	}
	fname := fn.RelString(fn.Pkg.Pkg)
	var out []*Obligation
	mk := func(name, src string, bad []string) {
		o := &Obligation{Name: fname + ":depends:" + name, Kind: "depends", Func: fname, Ctx: ctx, Solver: "ssa-dataflow", Src: src, Props: fc.Props, Status: "unsat"}
		if len(bad) > 0 {
			o.Status = "failed"
			o.Output = strings.Join(bad, "\n")
		}
		out = append(out, o)
	}
	calleeName := func(c *ssa.CallCommon) string {
		if f := c.StaticCallee(); f != nil {
			return f.Name()
		}
		return ""
	}
	for _, d := range fc.DependsOnly {
		var param *ssa.Parameter
		for _, p := range fn.Params {
			if p.Name() == d.Param {
				param = p
			}
		}
		if param == nil {
			mk(d.Param, "depends-only "+d.Param, []string{"no such parameter"})
			continue
		}
		allowed := map[string]bool{}
		for _, f := range d.Funcs {
			allowed[f] = true
		}
		var bad []string
		seen := map[ssa.Value]bool{}
		var follow func(v ssa.Value)
		follow = func(v ssa.Value) {
			if seen[v] {
				return
			}
			seen[v] = true
			refs := v.Referrers()
			if refs == nil {
				return
			}
			for _, r := range *refs {
				switch x := r.(type) {
				case *ssa.Store:
					if x.Val == v {
						if a, ok := x.Addr.(*ssa.Alloc); ok {
							follow(a) // the local copy of the parameter
							continue
						}
						bad = append(bad, fmt.Sprintf("%s is stored to memory at %s", d.Param, e.ld.Fset.Position(x.Pos())))
					}
				case *ssa.UnOp:
					if x.Op == token.MUL {
						follow(x)
						continue
					}
					bad = append(bad, fmt.Sprintf("%s is computed with at %s", d.Param, e.ld.Fset.Position(x.Pos())))
				case *ssa.Call:
					if !allowed[calleeName(&x.Call)] {
						bad = append(bad, fmt.Sprintf("%s is passed to %s at %s", d.Param, x.Call.Value.Name(), e.ld.Fset.Position(x.Pos())))
					}
				case *ssa.DebugRef:
				default:
					bad = append(bad, fmt.Sprintf("%s is used by %T at %s", d.Param, r, e.ld.Fset.Position(r.Pos())))
				}
			}
		}
		follow(param)
		mk(d.Param, "depends-only "+d.Param+" : "+strings.Join(d.Funcs, ", "), bad)
	}
	for _, f := range fc.OpaqueResult {
		var bad []string
		n := 0
		for _, b := range fn.Blocks {
			for _, in := range b.Instrs {
				c, ok := in.(*ssa.Call)
				if !ok || calleeName(&c.Call) != f {
					continue
				}
				n++
				seen := map[ssa.Value]bool{}
				var follow func(v ssa.Value)
				follow = func(v ssa.Value) {
					if seen[v] {
						return
					}
					seen[v] = true
					refs := v.Referrers()
					if refs == nil {
						return
					}
					for _, r := range *refs {
						switch x := r.(type) {
						case *ssa.MapUpdate:
							if x.Value != v {
								bad = append(bad, fmt.Sprintf("result of %s is used as a map or key at %s", f, e.ld.Fset.Position(x.Pos())))
							}
						case *ssa.MakeInterface, *ssa.ChangeType, *ssa.ChangeInterface:
							follow(r.(ssa.Value))
						case *ssa.Store:
							// stored into a composite literal / local: follow loads of that location
							if a, ok := x.Addr.(*ssa.Alloc); ok && x.Val == v {
								follow(a)
								continue
							}
							if ia, ok := x.Addr.(*ssa.IndexAddr); ok && x.Val == v {
								follow(ia.X)
								continue
							}
							bad = append(bad, fmt.Sprintf("result of %s is stored at %s", f, e.ld.Fset.Position(x.Pos())))
						case *ssa.UnOp:
							if x.Op == token.MUL {
								follow(x)
							} else {
								bad = append(bad, fmt.Sprintf("result of %s is computed with at %s", f, e.ld.Fset.Position(x.Pos())))
							}
						case *ssa.DebugRef:
						default:
							bad = append(bad, fmt.Sprintf("result of %s is used by %T at %s", f, r, e.ld.Fset.Position(r.Pos())))
						}
					}
				}
				follow(c)
			}
		}
		if n == 0 {
			bad = append(bad, "no call of "+f+" found (contract out of date)")
		}
		mk("result-of-"+f, "opaque-result "+f, bad)
	}
	return out
}

// lendObligations: the slice returned by (*bytes.Buffer).Bytes() aliases the buffer's storage. When such a slice
// leaves the function (returned, or handed to a callback) the buffer must have been created by this very
// activation (so nobody can Reset or write it afterwards while the caller still holds the bytes).
func (e *Engine) lendObligations(fn *ssa.Function, fc *FuncContract, ctx *FnCtx) []*Obligation {
	if fn.Blocks == nil {
		return nil
	}
	oa := newOriginAnalysis(e, fn)
	fname := fn.RelString(fn.Pkg.Pkg)
	var out []*Obligation
	n := 0
	// does value v (transitively through local variables, conversions, tuple construction) reach a Return or a call argument?
	escapes := func(v ssa.Value) bool {
		seen := map[ssa.Value]bool{}
		var walk func(v ssa.Value) bool
		walk = func(v ssa.Value) bool {
			if seen[v] {
				return false
			}
			seen[v] = true
			refs := v.Referrers()
			if refs == nil {
				return false
			}
			for _, r := range *refs {
				switch x := r.(type) {
				case *ssa.Return:
					return true
				case *ssa.Call:
					if _, isB := x.Call.Value.(*ssa.Builtin); isB {
						if walk(x) {
							return true
						}
						continue
					}
					if callee := x.Call.StaticCallee(); callee != nil && callee.Pkg != nil && callee.Pkg.Pkg.Path() == "bytes" {
						continue // bytes.NewReader(b.Bytes()) etc. do not retain beyond the call chain we track
					}
					return true
				case *ssa.Store:
					if a, ok := x.Addr.(*ssa.Alloc); ok && x.Val == v {
						for _, lr := range *a.Referrers() {
							if ld, ok := lr.(*ssa.UnOp); ok && ld.Op == token.MUL {
								if walk(ld) {
									return true
								}
							}
						}
						continue
					}
					if x.Val == v {
						return true // stored into memory we do not track
					}
				case *ssa.Convert:
					// string(b) copies
					if _, isStr := x.Type().Underlying().(*types.Basic); isStr {
						continue
					}
					if walk(x) {
						return true
					}
				case *ssa.ChangeType, *ssa.MakeInterface, *ssa.Slice, *ssa.Phi:
					if walk(r.(ssa.Value)) {
						return true
					}
				}
			}
			return false
		}
		return walk(v)
	}
	for _, b := range fn.Blocks {
		for _, in := range b.Instrs {
			c, ok := in.(*ssa.Call)
			if !ok {
				continue
			}
			callee := c.Call.StaticCallee()
			if callee == nil || callee.String() != "(*bytes.Buffer).Bytes" {
				continue
			}
			if !escapes(c) {
				continue
			}
			// origin of the buffer pointer
			fresh := true
			seen := map[ssa.Value]bool{}
			var orig func(v ssa.Value)
			orig = func(v ssa.Value) {
				if seen[v] {
					return
				}
				seen[v] = true
				switch x := v.(type) {
				case *ssa.Alloc:
					if x.Heap && len(oa.stores[x]) == 0 {
						return // new(bytes.Buffer)
					}
					for _, sv := range oa.stores[x] {
						orig(sv)
					}
					if len(oa.stores[x]) == 0 {
						fresh = false
					}
				case *ssa.UnOp:
					if x.Op == token.MUL {
						orig(x.X)
						return
					}
					fresh = false
				case *ssa.Call:
					if cal := x.Call.StaticCallee(); cal != nil && (cal.String() == "bytes.NewBuffer" || cal.String() == "bytes.NewBufferString") {
						return
					}
					fresh = false
				default:
					fresh = false
				}
			}
			orig(c.Call.Args[0])
			o := &Obligation{Name: fmt.Sprintf("%s:own:lend#%d Buffer.Bytes", fname, n), Kind: "own", Func: fname, Ctx: ctx, Solver: "ssa-dataflow", Status: "unsat",
				Src: "bytes handed out by Buffer.Bytes() must come from a buffer created by this call"}
			n++
			if fc != nil {
				o.Props = fc.Props
			}
			if c.Pos().IsValid() {
				o.Pos = e.ld.Fset.Position(c.Pos())
			}
			if !fresh {
				o.Status = "failed"
				o.Output = "the slice returned by Buffer.Bytes() leaves the function but the buffer was not created here: whoever owns the buffer can overwrite the bytes later (Reset / Write)"
			}
			out = append(out, o)
		}
	}
	return out
}

// ---- order obligations (C16): the result of an encoder must not depend on the map iteration order ----
//
// A range over a map is harmless when the loop only COLLECTS (stores into local variables / appends to a local
// slice, calling nothing but pure formatting helpers) and the collected slice is sorted before it is used; every
// other map range in an encoder must be over a map of at most one entry (an SMT obligation at the range).

var collectPureCallees = map[string]bool{"escapeChars": true, "fmt.Sprintf": true, "fmt.Errorf": true, "fmt.Sprint": true, "strings.Index": true}

func (e *Engine) isCollectThenSort(fn *ssa.Function, rng *ssa.Range) (bool, string) {
	li := analyzeLoops(fn)
	// the loop whose head holds the Next of this iterator
	var head *ssa.BasicBlock
	if refs := rng.Referrers(); refs != nil {
		for _, r := range *refs {
			if nx, ok := r.(*ssa.Next); ok {
				head = nx.Block()
			}
		}
	}
	if head == nil || li.body[head] == nil {
		return false, "iterator without loop"
	}
	collected := map[*ssa.Alloc]bool{}
	rootAlloc := func(v ssa.Value) *ssa.Alloc {
		for {
			switch x := v.(type) {
			case *ssa.Alloc:
				return x
			case *ssa.IndexAddr:
				v = x.X
			case *ssa.FieldAddr:
				v = x.X
			case *ssa.UnOp:
				if x.Op != token.MUL {
					return nil
				}
				v = x.X
			default:
				return nil
			}
		}
	}
	for b := range li.body[head] {
		for _, in := range b.Instrs {
			switch x := in.(type) {
			case *ssa.Store:
				a := rootAlloc(x.Addr)
				if a == nil {
					return false, "store to non-local memory inside the loop"
				}
				if _, isSlice := a.Type().(*types.Pointer).Elem().Underlying().(*types.Slice); isSlice {
					collected[a] = true
				}
			case *ssa.MapUpdate:
				return false, "map update inside the loop"
			case *ssa.Call:
				if _, isB := x.Call.Value.(*ssa.Builtin); isB {
					continue
				}
				callee := x.Call.StaticCallee()
				if callee == nil {
					return false, "dynamic call inside the loop"
				}
				name := callee.Name()
				if callee.Pkg != nil && callee.Pkg != fn.Pkg {
					name = callee.Pkg.Pkg.Name() + "." + callee.Name()
				}
				if cfc := e.ld.byFn[callee]; cfc != nil && len(cfc.Modifies) == 0 && callee.Pkg == fn.Pkg {
					continue // a function verified to modify nothing
				}
				if !collectPureCallees[name] {
					return false, "call of " + name + " inside the loop"
				}
			}
		}
	}
	if len(collected) == 0 {
		return false, "nothing collected"
	}
	// every collected slice variable must be handed to sort.Sort / sort.Strings somewhere after the loop
	for a := range collected {
		sorted := false
		for _, b := range fn.Blocks {
			if li.body[head][b] || !head.Dominates(b) {
				continue
			}
			for _, in := range b.Instrs {
				c, ok := in.(*ssa.Call)
				if !ok {
					continue
				}
				callee := c.Call.StaticCallee()
				if callee == nil || (callee.String() != "sort.Sort" && callee.String() != "sort.Strings") {
					continue
				}
				// trace the argument back to the variable
				v := c.Call.Args[0]
				for v != nil {
					switch x := v.(type) {
					case *ssa.MakeInterface:
						v = x.X
					case *ssa.ChangeType:
						v = x.X
					case *ssa.UnOp:
						if al, ok := x.X.(*ssa.Alloc); ok && al == a {
							sorted = true
						}
						v = nil
					default:
						v = nil
					}
				}
			}
		}
		if !sorted {
			return false, "collected slice " + a.Comment + " is not sorted after the loop"
		}
	}
	return true, "collect-then-sort"
}
