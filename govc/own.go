package main

// Ownership ("own") obligations, discharged by a data-flow analysis over the SSA instead of SMT.
//
// The SMT model treats slices as immutable sequence values, so it cannot see a write that lands in a backing array
// shared with somebody else (append into spare capacity of a re-sliced buffer, copy, element store). This pass closes
// that gap with a discipline: every in-place slice write (append / copy / element store) must target a backing array
// that this activation owns: allocated here (make, literal, nil), produced by append from such, returned by a callee
// whose contract says `fresh-result`, or reachable through a pointer parameter listed in `modifies`.

import (
	"fmt"
	"go/token"
	"go/types"
	"sort"
	"strings"

	"golang.org/x/tools/go/ssa"
)

type originSet map[string]bool

type originAnalysis struct {
	e      *Engine
	fn     *ssa.Function
	stores map[*ssa.Alloc][]ssa.Value
}

func newOriginAnalysis(e *Engine, fn *ssa.Function) *originAnalysis {
	oa := &originAnalysis{e: e, fn: fn, stores: map[*ssa.Alloc][]ssa.Value{}}
	for _, b := range fn.Blocks {
		for _, in := range b.Instrs {
			if st, ok := in.(*ssa.Store); ok {
				if a, ok := st.Addr.(*ssa.Alloc); ok {
					oa.stores[a] = append(oa.stores[a], st.Val)
				}
			}
		}
	}
	return oa
}

// asParam: v is parameter p, or a load of the local cell that only ever holds parameter p.
func (oa *originAnalysis) asParam(v ssa.Value) *ssa.Parameter {
	if p, ok := v.(*ssa.Parameter); ok {
		return p
	}
	if u, ok := v.(*ssa.UnOp); ok && u.Op == token.MUL {
		if a, ok := u.X.(*ssa.Alloc); ok {
			ss := oa.stores[a]
			if len(ss) == 1 {
				if p, ok := ss[0].(*ssa.Parameter); ok {
					return p
				}
			}
		}
	}
	return nil
}

func (oa *originAnalysis) origin(v ssa.Value) originSet {
	res := originSet{}
	seen := map[ssa.Value]bool{}
	var walk func(v ssa.Value)
	walk = func(v ssa.Value) {
		if seen[v] {
			return
		}
		seen[v] = true
		if p := oa.asParam(v); p != nil {
			res["param:"+p.Name()] = true
			return
		}
		switch x := v.(type) {
		case *ssa.Const, *ssa.MakeSlice, *ssa.Alloc, *ssa.Convert:
			res["fresh"] = true
		case *ssa.Slice:
			if _, isStr := x.X.Type().Underlying().(*types.Basic); isStr {
				res["fresh"] = true
				return
			}
			walk(x.X)
		case *ssa.Phi:
			for _, ed := range x.Edges {
				walk(ed)
			}
		case *ssa.ChangeType:
			walk(x.X)
		case *ssa.UnOp:
			if x.Op != token.MUL {
				res["heap"] = true
				return
			}
			if p := oa.asParam(x.X); p != nil {
				res["deref:"+p.Name()] = true
				return
			}
			switch a := x.X.(type) {
			case *ssa.Alloc:
				if len(oa.stores[a]) == 0 {
					res["fresh"] = true // zero value: nil slice
				}
				for _, sv := range oa.stores[a] {
					walk(sv)
				}
			case *ssa.Global:
				res["global:"+a.Name()] = true
			case *ssa.IndexAddr:
				walk(a.X) // element of a slice of slices / arrays: inherits the container's origin
			case *ssa.FieldAddr:
				if p := oa.asParam(a.X); p != nil {
					res["field:"+p.Name()] = true
				} else if _, ok := a.X.(*ssa.Alloc); ok {
					res["fresh"] = true
				} else {
					res["heap"] = true
				}
			default:
				res["heap"] = true
			}
		case *ssa.Call:
			if b, ok := x.Call.Value.(*ssa.Builtin); ok && b.Name() == "append" {
				walk(x.Call.Args[0])
				return
			}
			oa.callOrigin(x, res)
		case *ssa.Extract:
			if c, ok := x.Tuple.(*ssa.Call); ok {
				oa.callOrigin(c, res)
				return
			}
			res["heap"] = true
		default:
			res["heap"] = true
		}
	}
	walk(v)
	return res
}

func (oa *originAnalysis) callOrigin(c *ssa.Call, res originSet) {
	if callee := c.Call.StaticCallee(); callee != nil {
		if cfc := oa.e.ld.byFn[callee]; cfc != nil && cfc.FreshResult {
			res["fresh"] = true
			return
		}
		switch callee.String() {
		case "strings.Split", "strings.Fields", "bytes.Replace", "encoding/json.Marshal", "encoding/json.MarshalIndent", "encoding/xml.Marshal", "encoding/xml.MarshalIndent":
			res["fresh"] = true // documented to return newly allocated slices
			return
		}
		res["call:"+callee.Name()] = true
		return
	}
	res["call:dynamic"] = true
}

func (oa *originAnalysis) allowed(fc *FuncContract, tag string) bool {
	if tag == "fresh" {
		return true
	}
	if fc == nil {
		return false
	}
	if fc.OwnsLists && tag == "heap" {
		return true
	}
	for _, m := range fc.Modifies {
		m = strings.TrimSpace(m)
		if strings.HasPrefix(tag, "deref:") && m == "*"+tag[6:] {
			return true
		}
		if strings.HasPrefix(tag, "param:") && m == "elems("+tag[6:]+")" {
			return true
		}
		if m == "all" {
			return true
		}
	}
	return false
}

func (e *Engine) ownObligations(fn *ssa.Function, fc *FuncContract, ctx *FnCtx) []*Obligation {
	if fn.Blocks == nil {
		return nil
	}
	oa := newOriginAnalysis(e, fn)
	fname := fn.RelString(fn.Pkg.Pkg)
	var out []*Obligation
	n := 0
	emit := func(pos token.Pos, name, src string, tags originSet, what string) {
		var bad []string
		for t := range tags {
			if !oa.allowed(fc, t) {
				bad = append(bad, t)
			}
		}
		sort.Strings(bad)
		o := &Obligation{Name: name, Kind: "own", Func: fname, Ctx: ctx, Solver: "ssa-dataflow", Src: src}
		if pos.IsValid() {
			o.Pos = e.ld.Fset.Position(pos)
		}
		if fc != nil {
			o.Props = fc.Props
		}
		if len(bad) == 0 {
			o.Status = "unsat"
		} else {
			o.Status = "failed"
			o.Output = fmt.Sprintf("%s: the slice may share its backing array with memory not owned by this call (origin: %s)", what, strings.Join(bad, ", "))
		}
		out = append(out, o)
	}
	check := func(pos token.Pos, what string, target ssa.Value) {
		emit(pos, fmt.Sprintf("%s:own:#%d %s", fname, n, what), what+" writes into a backing array this activation must own", oa.origin(target), what)
		n++
	}
	for _, b := range fn.Blocks {
		for _, in := range b.Instrs {
			switch x := in.(type) {
			case *ssa.Call:
				if bi, ok := x.Call.Value.(*ssa.Builtin); ok {
					switch bi.Name() {
					case "append":
						if _, isSlice := x.Call.Args[0].Type().Underlying().(*types.Slice); isSlice {
							check(x.Pos(), "append", x.Call.Args[0])
						}
					case "copy":
						check(x.Pos(), "copy", x.Call.Args[0])
					}
				}
			case *ssa.Store:
				if ia, ok := x.Addr.(*ssa.IndexAddr); ok {
					if _, isSlice := ia.X.Type().Underlying().(*types.Slice); isSlice {
						check(x.Pos(), "element store", ia.X)
					}
				}
				// a slice stored through a pointer parameter must be owned too (the caller will append to it)
				if p := oa.asParam(x.Addr); p != nil {
					if _, isSlice := x.Val.Type().Underlying().(*types.Slice); isSlice {
						emit(x.Pos(), fmt.Sprintf("%s:own:#%d store *%s", fname, n, p.Name()), "slice stored through *"+p.Name()+" must be owned (fresh or derived from *"+p.Name()+")", oa.origin(x.Val), "store through pointer parameter")
						n++
					}
				}
			case *ssa.Return:
				if fc != nil && fc.FreshResult {
					for i, r := range x.Results {
						if _, isSlice := r.Type().Underlying().(*types.Slice); !isSlice {
							continue
						}
						tags := oa.origin(r)
						var bad originSet = originSet{}
						for t := range tags {
							if t != "fresh" {
								bad[t] = true
							}
						}
						o := &Obligation{Name: fmt.Sprintf("%s:own:fresh-result#%d.%d", fname, n, i), Kind: "own", Func: fname, Ctx: ctx, Solver: "ssa-dataflow", Props: fc.Props,
							Src: "fresh-result: returned slice must be freshly allocated", Status: "unsat"}
						if len(bad) > 0 {
							var bs []string
							for t := range bad {
								bs = append(bs, t)
							}
							sort.Strings(bs)
							o.Status = "failed"
							o.Output = "returned slice may alias memory held by someone else (origin: " + strings.Join(bs, ", ") + ")"
						}
						if x.Pos().IsValid() {
							o.Pos = e.ld.Fset.Position(x.Pos())
						}
						out = append(out, o)
						n++
					}
				}
			}
		}
	}
	return out
}

func (e *Engine) freshResultObligations(fn *ssa.Function, fc *FuncContract, ctx *FnCtx) []*Obligation {
	return nil // emitted by ownObligations at each return
}

func sameValue(a, b ssa.Value) bool {
	if a == b {
		return true
	}
	// len(x) evaluated twice on the same operand
	ca, ok1 := a.(*ssa.Call)
	cb, ok2 := b.(*ssa.Call)
	if ok1 && ok2 {
		ba, o1 := ca.Call.Value.(*ssa.Builtin)
		bb, o2 := cb.Call.Value.(*ssa.Builtin)
		if o1 && o2 && ba.Name() == "len" && bb.Name() == "len" && ca.Call.Args[0] == cb.Call.Args[0] {
			return true
		}
	}
	return false
}
