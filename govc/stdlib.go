package main

// Assumed contracts ("models") of standard-library functions and interface methods, and ghost intrinsics.
// Every model used in a run is recorded in ctx.trusted and echoed into the evidence trusted_base.

import (
	"fmt"
	"go/types"
	"strings"

	"golang.org/x/tools/go/ssa"
)

func ghostHeapSort(name string) Sort {
	switch name {
	case "G:buf", "G:wr", "G:fs":
		return ArrOf(SInt, SString)
	case "G:ftrunc":
		return ArrOf(SInt, SBool)
	case "G:rdpos", "G:xdpos", "G:xddepth":
		return ArrOf(SInt, SInt)
	case "G:jeEsc", "G:jdNum":
		return ArrOf(SInt, SBool)
	case "G:jePre", "G:jeInd":
		return ArrOf(SInt, SString)
	case "G:jeW", "G:jdSrc", "G:geW", "G:gdSrc":
		return ArrOf(SInt, SVal)
	case "G:rdeof":
		return ArrOf(SInt, SBool)
	}
	return ArrOf(SInt, SInt)
}

func (c *FnCtx) gheap(st *State, name string) *Term {
	s := ghostHeapSort(name)
	c.eng.heapSorts[name] = s
	return c.heap(st, name, s)
}

func (c *FnCtx) gset(st *State, name string, obj, v *Term) {
	s := ghostHeapSort(name)
	c.eng.heapSorts[name] = s
	c.setHeapAt(st, name, s, obj, v)
}

func opaqueModifies(c *FnCtx, pt types.Type, obj *Term) []modTarget {
	k := typeKey(pt)
	switch k {
	case "bytes.Buffer", "strings.Builder":
		c.eng.heapSorts["G:buf"] = ghostHeapSort("G:buf")
		return []modTarget{{heap: "G:buf", obj: obj}}
	case "encoding/xml.Decoder":
		c.eng.heapSorts["G:xdpos"] = ghostHeapSort("G:xdpos")
		c.eng.heapSorts["G:xddepth"] = ghostHeapSort("G:xddepth")
		return []modTarget{{heap: "G:xdpos", obj: obj}, {heap: "G:xddepth", obj: obj}}
	}
	return nil
}

func ghostIntrinsicHeaps(fn *ssa.Function) []string {
	switch fn.Name() {
	case "verifBuf":
		return []string{"G:buf"}
	case "verifRdPos":
		return []string{"G:rdpos"}
	case "verifRdEOF":
		return []string{"G:rdeof"}
	case "verifWritten":
		return []string{"G:wr"}
	case "verifFile":
		return []string{"G:fs"}
	case "verifTokPos":
		return []string{"G:xdpos"}
	case "verifTokDepth":
		return []string{"G:xddepth"}
	case "verifHeight":
		return []string{"Mdom:map[string]interface{}", "Msel:map[string]interface{}"}
	case "verifSoleKey":
		return []string{"Mdom:map[string]interface{}", "Mlen:map[string]interface{}"}
	case "verifJsonText", "verifJsonErr", "verifJsonDecodedAs", "verifGobBytes", "verifGobErr", "verifGobDecodedAs":
		return []string{"Mdom:map[string]interface{}", "Msel:map[string]interface{}", "Mlen:map[string]interface{}"}
	}
	return nil
}

func (c *FnCtx) ioID(v *Term) *Term { return c.eng.ts.UF("ioid", SInt, v) }

// ghostIntrinsic: functions declared in verif_spec.go whose meaning is built into the engine.
func (c *FnCtx) ghostIntrinsic(fr *Frame, st *State, fn *ssa.Function, args []*Term) ([]*Term, bool) {
	ts := c.eng.ts
	switch fn.Name() {
	case "verifBuf": // content of a *bytes.Buffer / *strings.Builder
		return []*Term{c.gget(st, "G:buf", args[0])}, true
	case "verifRdPos": // number of bytes consumed from reader so far
		pos := c.gget(st, "G:rdpos", c.ioID(args[0]))
		c.addFactT(st, pos, ts.And(ts.Le(ts.Int(0), pos), ts.Le(pos, ts.Len(ts.UF("rddata", SString, c.ioID(args[0]))))))
		return []*Term{pos}, true
	case "verifRdData": // the whole byte stream the reader will ever deliver
		return []*Term{ts.UF("rddata", SString, c.ioID(args[0]))}, true
	case "verifRdEOF":
		return []*Term{c.gget(st, "G:rdeof", c.ioID(args[0]))}, true
	case "verifWritten":
		return []*Term{c.gget(st, "G:wr", c.ioID(args[0]))}, true
	case "verifTokPos":
		return []*Term{c.gget(st, "G:xdpos", args[0])}, true
	case "verifTokDepth": // number of currently open elements as seen by Decoder.Token
		return []*Term{c.gget(st, "G:xddepth", args[0])}, true
	case "verifFresh": // object allocated during this call
		base := c.freshBase
		if base == nil {
			base = c.entryWM
		}
		if base == nil {
			unsupported("verifFresh outside a postcondition")
		}
		return []*Term{ts.Ge(args[0], base)}, true
	case "verifRangeCount": // entries delivered so far by the map-range loop with the given ordinal
		k, ok := args[0].IntLit()
		if !ok || c.curFrame == nil || c.curFrame.iterByLoop[int(k)] == nil {
			unsupported("verifRangeCount: no map-range loop #%v known at this point", k)
		}
		return []*Term{c.getCell(st, c.curFrame.iterByLoop[int(k)].count)}, true
	case "verifHeight":
		return []*Term{c.height(st, args[0])}, true
	case "verifSoleKey": // the key of a single-entry map: a map of length 1 has exactly this key
		mt := types.NewMap(types.Typ[types.String], types.NewInterfaceType(nil, nil))
		mh := c.mapHeaps(st, mt)
		c.mapFacts(st, mt, args[0])
		dom := c.hget(st, mh.dom, mh.sdom, args[0])
		ln := c.hget(st, mh.ln, mh.sln, args[0])
		w := ts.UF("solekey", SString, dom)
		empty := ts.ConstArr(ArrOf(mh.ks, SBool), ts.Bool(false))
		c.addFactT(st, w, ts.Implies(ts.Eq(ln, ts.Int(1)), ts.Eq(dom, ts.Store(empty, w, ts.Bool(true)))))
		return []*Term{w}, true
	case "verifMapsSameExcept", "verifMapSameExceptKey", "verifMapSameExceptKeys", "verifOldHas", "verifOldGet", "verifOldLen", "verifOldTrueB", "verifGrowsB", "verifMapUnchanged":
		return c.heapRelIntrinsic(st, fn.Name(), args), true
	case "verifInfallibleWriter": // the writer is an in-memory buffer: Write never fails and accepts all bytes
		return []*Term{ts.UF("infallibleWriter", SBool, args[0])}, true
	case "verifIsByteReader":
		return []*Term{c.implementsNamed(st, args[0], "io", "ByteReader")}, true
	case "verifJsonText": // encoding/json's text for a value: (value, escapeHTML, prefix, indent)
		t, _ := c.jsonText(st, args[0], args[1])
		return []*Term{t}, true
	case "verifJsonIndent":
		return []*Term{ts.UF("jsonIndent", SString, args[0], args[1], args[2])}, true
	case "verifJsonErr":
		_, e := c.jsonText(st, args[0], ts.Bool(true))
		return []*Term{e}, true
	case "verifJsonDecErr":
		return []*Term{ts.UF("jsonDecErr", SVal, args[0], args[1])}, true
	case "verifJsonDecodedAs":
		mt := types.NewMap(types.Typ[types.String], types.NewInterfaceType(nil, nil))
		mh := c.mapHeaps(st, mt)
		return []*Term{ts.UF("jsonDecodedAs", SBool, c.heap(st, mh.dom, mh.sdom), c.heap(st, mh.sel, mh.ssel), c.heap(st, mh.ln, mh.sln), args[0], args[1], args[2])}, true
	case "verifGobBytes", "verifGobErr":
		c.eng.registerMapHeaps(types.NewMap(types.Typ[types.String], types.NewInterfaceType(nil, nil)))
		var hs []*Term
		for _, h := range []string{"Mdom:map[string]interface{}", "Msel:map[string]interface{}", "Mlen:map[string]interface{}"} {
			hs = append(hs, c.heap(st, h, c.eng.heapSorts[h]))
		}
		v := c.normJsonVal(args[0])
		if fn.Name() == "verifGobBytes" {
			return []*Term{ts.UF("gobBytes", SString, append(hs, v)...)}, true
		}
		return []*Term{ts.UF("gobErr", SVal, append(hs, v)...)}, true
	case "verifGobDecErr":
		return []*Term{ts.UF("gobDecErr", SVal, args[0])}, true
	case "verifGobDecodedAs":
		mt := types.NewMap(types.Typ[types.String], types.NewInterfaceType(nil, nil))
		mh := c.mapHeaps(st, mt)
		return []*Term{ts.UF("gobDecodedAs", SBool, c.heap(st, mh.dom, mh.sdom), c.heap(st, mh.sel, mh.ssel), c.heap(st, mh.ln, mh.sln), args[0], args[1])}, true
	case "verifSame": // two values are the same (slices element-wise, maps by identity): equality of their representations
		return []*Term{ts.Eq(args[0], args[1])}, true
	case "verifSameMap": // identity of two maps
		return []*Term{ts.Eq(args[0], args[1])}, true
	case "verifSameVal": // equality of two values (maps by identity)
		return []*Term{ts.Eq(args[0], args[1])}, true
	case "verifSameLeaves": // equality of two leaf lists as sequences
		return []*Term{ts.Eq(args[0], args[1])}, true
	case "verifSeqEq": // equality of two slices as sequences of values (maps compared by identity)
		return []*Term{ts.Eq(args[0], args[1])}, true
	case "verifRangeIndex": // index of the element the slice-range loop with the given ordinal handled last (-1 before the first)
		k, ok := args[0].IntLit()
		if !ok || c.curFrame == nil {
			unsupported("verifRangeIndex needs a literal loop ordinal")
		}
		for h, ord := range c.curFrame.loops.heads {
			if ord != int(k) {
				continue
			}
			for _, in := range h.Instrs {
				if sto, ok := in.(*ssa.Store); ok {
					if a, ok := sto.Addr.(*ssa.Alloc); ok && a.Comment == "rangeindex" {
						if cell, ok := c.curFrame.cells[a]; ok {
							return []*Term{c.getCell(st, cell)}, true
						}
					}
				}
			}
		}
		unsupported("verifRangeIndex: loop #%d is not a slice range loop", k)
	case "verifVisited": // has the map-range loop with the given ordinal already delivered this key?
		k, ok := args[0].IntLit()
		if !ok || c.curFrame == nil || c.curFrame.iterByLoop[int(k)] == nil {
			unsupported("verifVisited: no map-range loop #%v known at this point", k)
		}
		return []*Term{ts.Select(c.getCell(st, c.curFrame.iterByLoop[int(k)].visited), args[1])}, true
	case "verifLoopSame": // map m has exactly the entries it had when the loop with the given ordinal was entered
		k, ok := args[0].IntLit()
		if !ok || c.curFrame == nil {
			unsupported("verifLoopSame needs a literal loop ordinal")
		}
		ent := c.curFrame.loopEntry[int(k)]
		if ent == nil {
			// establishing the invariant on entry: the loop-entry state is the current one
			return []*Term{ts.Bool(true)}, true
		}
		mh := c.mapHeaps(st, types.NewMap(types.Typ[types.String], types.NewInterfaceType(nil, nil)))
		return []*Term{ts.And(
			ts.Eq(c.hget(st, mh.dom, mh.sdom, args[1]), c.hget(ent, mh.dom, mh.sdom, args[1])),
			ts.Eq(c.hget(st, mh.sel, mh.ssel, args[1]), c.hget(ent, mh.sel, mh.ssel, args[1])),
			ts.Eq(c.hget(st, mh.ln, mh.sln, args[1]), c.hget(ent, mh.ln, mh.sln, args[1])))}, true
	case "verifXmlWellFormed": // xml.Decoder.Token accepts the whole text (reaches io.EOF without an error)
		return []*Term{ts.UF("xmlWellFormed", SBool, args[0])}, true
	case "verifFile": // content of the file at a path in the ghost file system
		return []*Term{c.gget(st, "G:fs", ts.UF("fsid", SInt, args[0]))}, true
	case "verifIsNaN":
		return []*Term{ts.UF("f64!isnan", SBool, args[0])}, true
	case "verifIsInf":
		return []*Term{ts.UF("f64!isinf", SBool, args[0])}, true
	case "verifReplaceAll":
		return []*Term{ts.App("str.replace_all", SString, args[0], args[1], args[2])}, true
	case "verifContains":
		return []*Term{ts.App("str.contains", SBool, args[0], args[1])}, true
	case "verifHasPrefix":
		return []*Term{ts.App("str.prefixof", SBool, args[1], args[0])}, true
	case "verifToLower":
		return []*Term{c.toLower(st, args[0])}, true
	}
	return nil, false
}

func (c *FnCtx) toLower(st *State, s *Term) *Term {
	ts := c.eng.ts
	if l, ok := s.StrLit(); ok {
		return ts.Str(strings.ToLower(l))
	}
	r := ts.UF("strings.ToLower", SString, s)
	// exact characterisation for the ASCII literals the code compares against (no letter of these has a
	// non-ASCII upper-case form): ToLower(s) == L  <=>  s is an ASCII case variant of L
	for _, lit := range []string{"nan", "inf", "-inf", "+inf", "infinity", "+infinity", "-infinity"} {
		conds := []*Term{ts.Eq(ts.Len(s), ts.Int(int64(len(lit))))}
		for i := 0; i < len(lit); i++ {
			ch := ts.App("str.at", SString, s, ts.Int(int64(i)))
			alts := []*Term{ts.Eq(ch, ts.Str(lit[i:i+1]))}
			if lit[i] >= 'a' && lit[i] <= 'z' {
				alts = append(alts, ts.Eq(ch, ts.Str(strings.ToUpper(lit[i:i+1]))))
			}
			conds = append(conds, ts.Or(alts...))
		}
		c.addFactT(st, r, ts.Eq(ts.Eq(r, ts.Str(lit)), ts.And(conds...)))
	}
	c.addFactT(st, r, ts.Eq(ts.UF("strings.ToLower", SString, r), r))
	c.addFactT(st, r, ts.Eq(ts.Eq(s, ts.Str("")), ts.Eq(r, ts.Str(""))))
	return r
}

func (c *FnCtx) freshErr(st *State, hint string) *Term {
	ts := c.eng.ts
	e := ts.Fresh("err!"+hint, SVal)
	c.addFact(st, ts.App("(_ is VBox)", SBool, e))
	// a freshly created error differs from the well-known sentinel errors
	c.addFact(st, ts.Not(ts.Eq(e, ts.Named("g!io.EOF", SVal))))
	return e
}

// maybeErr: an error result that may be nil.
func (c *FnCtx) maybeErr(st *State, hint string) *Term {
	ts := c.eng.ts
	e := ts.Fresh("err!"+hint, SVal)
	c.addFact(st, ts.Or(c.eng.tc.IsNilVal(e), ts.App("(_ is VBox)", SBool, e)))
	return e
}

func nilVal(ts *TermStore) *Term { return ts.App("VNil", SVal) }

// model applies the assumed contract of an external function / interface method.
func (c *FnCtx) model(fr *Frame, st *State, x *ssa.Call, name string, args []*Term, cc *ssa.CallCommon) []*Term {
	ts := c.eng.ts
	tc := c.eng.tc
	use := func(s string) { c.trusted["stdlib: "+s] = true }
	pow2 := func(bits int64) string {
		v := "1"
		// 2^(bits-1) for 8,16,32,64
		switch bits {
		case 8:
			v = "128"
		case 16:
			v = "32768"
		case 32:
			v = "2147483648"
		default:
			v = "9223372036854775808"
		}
		return v
	}
	switch name {
	// ---------------- strings ----------------
	case "strings.Index":
		use("strings.Index(s,sub) = str.indexof(s,sub,0)")
		return []*Term{ts.App("str.indexof", SInt, args[0], args[1], ts.Int(0))}
	case "strings.Contains":
		use("strings.Contains = str.contains")
		return []*Term{ts.App("str.contains", SBool, args[0], args[1])}
	case "strings.HasPrefix":
		return []*Term{ts.App("str.prefixof", SBool, args[1], args[0])}
	case "strings.HasSuffix":
		return []*Term{ts.App("str.suffixof", SBool, args[1], args[0])}
	case "strings.Split":
		use("strings.Split: >=1 parts; no separator => [s]; first part is the prefix before the first separator and the rest is Split of the remainder; Join inverts")
		return []*Term{c.splitModel(st, args[0], args[1], 2)}
	case "strings.Join":
		use("strings.Join: [] => \"\"; [a] => a; a:rest => a+sep+Join(rest)")
		return []*Term{c.joinModel(st, args[0], args[1], 2)}
	case "strings.ReplaceAll":
		use("strings.ReplaceAll(s,old,new) = str.replace_all for non-empty old")
		r := ts.UF("strings.ReplaceAll", SString, args[0], args[1], args[2])
		c.addFactT(st, r, ts.Implies(ts.Not(ts.Eq(args[1], ts.Str(""))), ts.Eq(r, ts.App("str.replace_all", SString, args[0], args[1], args[2]))))
		return []*Term{r}
	case "strings.Replace":
		use("strings.Replace(s,old,new,n<0) = str.replace_all for non-empty old")
		r := ts.UF("strings.Replace", SString, args[0], args[1], args[2], args[3])
		c.addFactT(st, r, ts.Implies(ts.And(ts.Not(ts.Eq(args[1], ts.Str(""))), ts.Lt(args[3], ts.Int(0))), ts.Eq(r, ts.App("str.replace_all", SString, args[0], args[1], args[2]))))
		return []*Term{r}
	case "strings.ToLower":
		use("strings.ToLower: idempotent, preserves emptiness; literal arguments evaluated")
		return []*Term{c.toLower(st, args[0])}
	case "strings.Trim", "strings.TrimSpace", "strings.TrimLeft", "strings.TrimRight":
		use(name + ": result is a contiguous substring of the argument")
		r := ts.UF(name, SString, args...)
		c.addFactT(st, r, ts.App("str.contains", SBool, args[0], r))
		c.addFactT(st, r, ts.Le(ts.Len(r), ts.Len(args[0])))
		return []*Term{r}
	// ---------------- bytes ----------------
	case "bytes.Replace":
		use("bytes.Replace(s,old,new,n) = str.replace_all for non-empty old when n < 0 or n >= bytes.Count(s,old)")
		r := ts.UF("bytes.Replace", SString, args[0], args[1], args[2], args[3])
		all := ts.Or(ts.Lt(args[3], ts.Int(0)), ts.Ge(args[3], ts.UF("bytes.Count", SInt, args[0], args[1])))
		c.addFactT(st, r, ts.Implies(ts.And(ts.Not(ts.Eq(args[1], ts.Str(""))), all), ts.Eq(r, ts.App("str.replace_all", SString, args[0], args[1], args[2]))))
		return []*Term{r}
	case "bytes.TrimSuffix", "strings.TrimSuffix":
		use(name + ": removes the suffix when present")
		has := ts.App("str.suffixof", SBool, args[1], args[0])
		return []*Term{ts.Ite(has, ts.Extract(args[0], ts.Int(0), ts.Sub(ts.Len(args[0]), ts.Len(args[1]))), args[0])}
	case "bytes.Count":
		use("bytes.Count(s, sep) for non-empty sep: >= 0, and 0 exactly when sep does not occur in s")
		r := ts.UF("bytes.Count", SInt, args[0], args[1])
		c.addFact(st, ts.Ge(r, ts.Int(0)))
		c.addFactT(st, r, ts.Implies(ts.Not(ts.Eq(args[1], ts.Str(""))), ts.Eq(ts.Eq(r, ts.Int(0)), ts.Not(ts.App("str.contains", SBool, args[0], args[1])))))
		return []*Term{r}
	case "bytes.NewBuffer", "bytes.NewBufferString":
		use("bytes.Buffer: abstract content string; NewBuffer(b) starts with content b")
		o := c.allocObj(st, "buf")
		c.gset(st, "G:buf", o, args[0])
		return []*Term{o}
	case "(*bytes.Buffer).WriteString", "(*strings.Builder).WriteString", "(*bytes.Buffer).Write", "(*strings.Builder).Write":
		use("Buffer/Builder.Write*: appends to the content, returns (len, nil)")
		c.escapeObligations(st, args[1], x.Pos(), "write")
		old := c.gget(st, "G:buf", args[0])
		c.gset(st, "G:buf", args[0], ts.Concat(old, args[1]))
		return []*Term{ts.Len(args[1]), nilVal(ts)}
	case "(*bytes.Buffer).Bytes", "(*bytes.Buffer).String", "(*strings.Builder).String":
		return []*Term{c.gget(st, "G:buf", args[0])}
	case "(*bytes.Buffer).Len", "(*strings.Builder).Len":
		return []*Term{ts.Len(c.gget(st, "G:buf", args[0]))}
	case "bytes.NewReader", "strings.NewReader":
		use("bytes.NewReader(b): a reader object whose stream is exactly b, position 0")
		o := c.allocObj(st, "rdr")
		rv, facts := tc.Box(cc.Signature().Results().At(0).Type(), o)
		for _, f := range facts {
			c.addFact(st, f)
		}
		id := c.ioID(rv)
		c.addFact(st, ts.Eq(ts.UF("rddata", SString, id), args[0]))
		c.gset(st, "G:rdpos", id, ts.Int(0))
		c.gset(st, "G:rdeof", id, ts.Bool(false))
		return []*Term{o}
	// ---------------- io ----------------
	case "(io.Reader).Read", "(*os.File).Read":
		use("io.Reader.Read(p): 0<=n<=len(p); p[:n] are the next n bytes of the stream; consumed += n; err arbitrary; err==io.EOF => stream exhausted; (0,nil) permitted")
		return c.readModel(fr, st, x, args[0], args[1], cc)
	case "(io.Writer).Write":
		use("io.Writer.Write(p): 0<=n<=len(p); appends p[:n] to the sink; n<len(p) => err != nil")
		id := c.ioID(args[0])
		n := ts.Fresh("wr!n", SInt)
		e := c.maybeErr(st, "write")
		c.addFact(st, ts.And(ts.Le(ts.Int(0), n), ts.Le(n, ts.Len(args[1]))))
		c.addFact(st, ts.Implies(ts.Lt(n, ts.Len(args[1])), ts.Not(tc.IsNilVal(e))))
		// a *bytes.Buffer / *strings.Builder behind the interface never fails and takes everything
		inf := ts.UF("infallibleWriter", SBool, args[0])
		c.addFact(st, ts.Implies(inf, ts.And(tc.IsNilVal(e), ts.Eq(n, ts.Len(args[1])))))
		old := c.gget(st, "G:wr", id)
		c.gset(st, "G:wr", id, ts.Concat(old, ts.Extract(args[1], ts.Int(0), n)))
		return []*Term{n, e}
	case "(error).Error":
		return []*Term{ts.UF("errmsg", SString, args[0])}
	// ---------------- errors / fmt ----------------
	case "errors.New":
		use("errors.New / fmt.Errorf return a fresh non-nil error")
		e := c.freshErr(st, "new")
		c.addFact(st, ts.Eq(ts.UF("errmsg", SString, e), args[0]))
		return []*Term{e}
	case "fmt.Errorf":
		use("errors.New / fmt.Errorf return a fresh non-nil error")
		return []*Term{c.freshErr(st, "errorf")}
	case "fmt.Sprintf", "fmt.Sprint":
		use("fmt.Sprintf/Sprint: deterministic function of its arguments (uninterpreted); %v of a string is the string")
		r := ts.UF(name, SString, args...)
		return []*Term{r}
	// ---------------- strconv ----------------
	case "strconv.ParseInt", "strconv.ParseUint":
		base, isB := args[1].IntLit()
		bits := int64(64)
		if b, isLit := args[2].IntLit(); isLit && b > 0 {
			bits = b
		}
		e := ts.Fresh("err!parse", SVal)
		c.addFact(st, ts.Or(tc.IsNilVal(e), ts.App("(_ is VBox)", SBool, e)))
		if isB && base == 10 {
			use(name + "(s,10,bits): exact — optional sign (ParseInt only), non-empty decimal digits, value within the bit size; value = the numeral")
			sarg := args[0]
			var ok, v *Term
			if name == "strconv.ParseInt" {
				neg := ts.App("str.prefixof", SBool, ts.Str("-"), sarg)
				pos := ts.App("str.prefixof", SBool, ts.Str("+"), sarg)
				d := ts.Ite(ts.Or(neg, pos), ts.Extract(sarg, ts.Int(1), ts.Sub(ts.Len(sarg), ts.Int(1))), sarg)
				n := ts.App("str.to_int", SInt, d)
				lim := ts.BigInt(pow2(bits))
				ok = ts.And(ts.Ge(n, ts.Int(0)), ts.Ite(neg, ts.Le(n, lim), ts.Lt(n, lim)))
				v = ts.Ite(ok, ts.Ite(neg, ts.Sub(ts.Int(0), n), n), ts.UF(name+"!errval", SInt, args...))
				c.addFact(st, ts.And(ts.Le(ts.BigInt("-"+pow2(bits)), v), ts.Lt(v, lim)))
			} else {
				n := ts.App("str.to_int", SInt, sarg)
				max := "18446744073709551615"
				if bits == 32 {
					max = "4294967295"
				}
				ok = ts.And(ts.Ge(n, ts.Int(0)), ts.Le(n, ts.BigInt(max)))
				v = ts.Ite(ok, n, ts.UF(name+"!errval", SInt, args...))
				c.addFact(st, ts.And(ts.Le(ts.Int(0), v), ts.Le(v, ts.BigInt(max))))
			}
			c.addFact(st, ts.Eq(tc.IsNilVal(e), ok))
			return []*Term{v, e}
		}
		use(name + ": err==nil iff the text is a numeral in range; value within the requested bit size")
		ok := ts.UF(name+"!ok", SBool, args...)
		v := ts.UF(name+"!val", SInt, args...)
		c.addFact(st, ts.Eq(tc.IsNilVal(e), ok))
		if name == "strconv.ParseInt" {
			c.addFact(st, ts.And(ts.Le(ts.BigInt("-"+pow2(bits)), v), ts.Lt(v, ts.BigInt(pow2(bits)))))
		} else {
			c.addFact(st, ts.And(ts.Le(ts.Int(0), v), ts.Le(v, ts.BigInt("18446744073709551615"))))
		}
		c.addFact(st, ts.Implies(ok, ts.Gt(ts.Len(args[0]), ts.Int(0))))
		return []*Term{v, e}
	case "strconv.Atoi":
		use("strconv.Atoi(s) = ParseInt(s,10,0): exact for 64-bit int")
		sarg := args[0]
		neg := ts.App("str.prefixof", SBool, ts.Str("-"), sarg)
		pos := ts.App("str.prefixof", SBool, ts.Str("+"), sarg)
		d := ts.Ite(ts.Or(neg, pos), ts.Extract(sarg, ts.Int(1), ts.Sub(ts.Len(sarg), ts.Int(1))), sarg)
		n := ts.App("str.to_int", SInt, d)
		lim := ts.BigInt(pow2(64))
		ok := ts.And(ts.Ge(n, ts.Int(0)), ts.Ite(neg, ts.Le(n, lim), ts.Lt(n, lim)))
		v := ts.Ite(ok, ts.Ite(neg, ts.Sub(ts.Int(0), n), n), ts.UF(name+"!errval", SInt, args...))
		c.addFact(st, ts.And(ts.Le(ts.BigInt("-"+pow2(64)), v), ts.Lt(v, lim)))
		e := ts.Fresh("err!parse", SVal)
		c.addFact(st, ts.Or(tc.IsNilVal(e), ts.App("(_ is VBox)", SBool, e)))
		c.addFact(st, ts.Eq(tc.IsNilVal(e), ok))
		return []*Term{v, e}
	case "math.IsNaN":
		use("math.IsNaN / math.IsInf: uninterpreted predicates on float64")
		return []*Term{ts.UF("f64!isnan", SBool, args[0])}
	case "math.IsInf":
		use("math.IsNaN / math.IsInf: uninterpreted predicates on float64")
		return []*Term{ts.UF("f64!isinf", SBool, args[0])}
	case "strconv.ParseFloat":
		use("strconv.ParseFloat: err==nil iff the text is a float literal (including the special spellings of NaN/Inf); value uninterpreted")
		ok := ts.UF(name+"!ok", SBool, args[0])
		v := ts.UF(name+"!val", SF64, args[0])
		e := ts.Fresh("err!parse", SVal)
		c.addFact(st, ts.Eq(tc.IsNilVal(e), ok))
		c.addFact(st, ts.Or(tc.IsNilVal(e), ts.App("(_ is VBox)", SBool, e)))
		c.addFact(st, ts.Implies(ok, ts.Gt(ts.Len(args[0]), ts.Int(0))))
		// special values: exactly the spellings [+-]?inf, [+-]?infinity and nan (ASCII case-insensitive) parse to
		// an infinity / a NaN without error (overflowing numerals return ErrRange)
		use("strconv.ParseFloat returns err==nil with an infinite or NaN value exactly for the spellings [+-]?inf, [+-]?infinity, nan (case-insensitive)")
		low := c.toLower(st, args[0])
		var infs []*Term
		for _, sp := range []string{"inf", "+inf", "-inf", "infinity", "+infinity", "-infinity"} {
			infs = append(infs, ts.Eq(low, ts.Str(sp)))
		}
		isInfSp := ts.Or(infs...)
		isNanSp := ts.Eq(low, ts.Str("nan"))
		c.addFactT(st, v, ts.Eq(ts.And(ok, ts.UF("f64!isinf", SBool, v)), isInfSp))
		c.addFactT(st, v, ts.Eq(ts.And(ok, ts.UF("f64!isnan", SBool, v)), isNanSp))
		return []*Term{v, e}
	case "strconv.ParseBool":
		use("strconv.ParseBool: accepts exactly 1,t,T,TRUE,true,True,0,f,F,FALSE,false,False")
		tr := []string{"1", "t", "T", "TRUE", "true", "True"}
		fa := []string{"0", "f", "F", "FALSE", "false", "False"}
		var isT, isF []*Term
		for _, s := range tr {
			isT = append(isT, ts.Eq(args[0], ts.Str(s)))
		}
		for _, s := range fa {
			isF = append(isF, ts.Eq(args[0], ts.Str(s)))
		}
		t, f := ts.Or(isT...), ts.Or(isF...)
		e := ts.Fresh("err!parse", SVal)
		c.addFact(st, ts.Eq(tc.IsNilVal(e), ts.Or(t, f)))
		c.addFact(st, ts.Or(tc.IsNilVal(e), ts.App("(_ is VBox)", SBool, e)))
		return []*Term{t, e}
	case "strconv.Itoa", "strconv.FormatInt", "strconv.FormatBool", "strconv.FormatFloat":
		use(name + ": deterministic, non-empty result")
		r := ts.UF(name, SString, args...)
		c.addFact(st, ts.Gt(ts.Len(r), ts.Int(0)))
		if name == "strconv.Itoa" {
			c.addFact(st, ts.Implies(ts.Ge(args[0], ts.Int(0)), ts.Eq(r, ts.App("str.from_int", SString, args[0]))))
		}
		return []*Term{r}
	// ---------------- sort ----------------
	case "sort.Strings":
		use("sort.Strings: permutes the slice in place into ascending order (length preserved)")
		o, ok := fr.origin[cc.Args[0]]
		r := ts.Fresh("sorted", args[0].sort)
		c.addFact(st, ts.Eq(ts.Len(r), ts.Len(args[0])))
		if ok && c.load(st, o) == args[0] {
			c.store(st, o, r)
		}
		return nil
	case "time.Sleep":
		return nil
	case "encoding/json.Marshal", "encoding/json.MarshalIndent":
		use("encoding/json.Marshal*/Encoder.Encode: the text is an uninterpreted function jsonText(value, escapeHTML, prefix, indent) of the value's content; the error a function jsonErr(value); no text on error")
		txt, e := c.jsonText(st, args[0], ts.Bool(true))
		if name == "encoding/json.MarshalIndent" {
			txt = ts.UF("jsonIndent", SString, txt, args[1], args[2])
		}
		return []*Term{ts.Ite(tc.IsNilVal(e), txt, ts.Str("")), e}
	case "encoding/json.Indent":
		use("encoding/json.Indent(dst, src, prefix, indent): appends jsonIndent(src, prefix, indent) to dst; fails only on invalid JSON")
		old := c.gget(st, "G:buf", args[0])
		c.gset(st, "G:buf", args[0], ts.Concat(old, ts.UF("jsonIndent", SString, args[1], args[2], args[3])))
		e := c.maybeErr(st, "indent")
		c.addFact(st, ts.Implies(ts.UF("jsonValid", SBool, args[1]), tc.IsNilVal(e)))
		return []*Term{e}
	case "encoding/json.NewEncoder":
		use("encoding/json.NewEncoder(w): encoder object with escapeHTML=true, no indentation, writing to w")
		o := c.allocObj(st, "jsonenc")
		c.gset(st, "G:jeEsc", o, ts.Bool(true))
		c.gset(st, "G:jePre", o, ts.Str(""))
		c.gset(st, "G:jeInd", o, ts.Str(""))
		c.gset(st, "G:jeW", o, args[0])
		return []*Term{o}
	case "(*encoding/json.Encoder).SetEscapeHTML":
		c.gset(st, "G:jeEsc", args[0], args[1])
		return nil
	case "(*encoding/json.Encoder).SetIndent":
		c.gset(st, "G:jePre", args[0], args[1])
		c.gset(st, "G:jeInd", args[0], args[2])
		return nil
	case "(*encoding/json.Encoder).Encode":
		use("encoding/json.Marshal*/Encoder.Encode: the text is an uninterpreted function jsonText(value, escapeHTML, prefix, indent) of the value's content; the error a function jsonErr(value); no text on error")
		txt, e := c.jsonText(st, args[1], c.gget(st, "G:jeEsc", args[0]))
		{
			pre, ind := c.gget(st, "G:jePre", args[0]), c.gget(st, "G:jeInd", args[0])
			indentOn := ts.Not(ts.And(ts.Eq(pre, ts.Str("")), ts.Eq(ind, ts.Str(""))))
			txt = ts.Ite(indentOn, ts.UF("jsonIndent", SString, txt, pre, ind), txt)
		}
		w := c.gget(st, "G:jeW", args[0])
		out := ts.Ite(tc.IsNilVal(e), ts.Concat(txt, ts.Str("\n")), ts.Str(""))
		// the encoder writes to its writer; in-memory buffers never fail
		bufT := types.NewPointer(c.namedType("bytes", "Buffer"))
		isBuf := tc.IsType(bufT, w)
		bobj := tc.Unbox(bufT, w)
		oldb := c.gget(st, "G:buf", bobj)
		c.gset(st, "G:buf", bobj, ts.Ite(isBuf, ts.Concat(oldb, out), oldb))
		id := c.ioID(w)
		oldw := c.gget(st, "G:wr", id)
		c.gset(st, "G:wr", id, ts.Ite(isBuf, oldw, ts.Concat(oldw, out)))
		werr := c.maybeErr(st, "encwrite")
		c.addFact(st, ts.Implies(isBuf, tc.IsNilVal(werr)))
		return []*Term{ts.Ite(tc.IsNilVal(e), werr, e)}
	case "encoding/gob.NewEncoder":
		use("encoding/gob: Encoder.Encode writes gobBytes(value) - an uninterpreted function of the value's content - or fails with gobErr(value); Decoder.Decode yields a fresh map related to the bytes by gobDecodedAs")
		o := c.allocObj(st, "gobenc")
		c.gset(st, "G:geW", o, args[0])
		return []*Term{o}
	case "(*encoding/gob.Encoder).Encode":
		use("encoding/gob: Encoder.Encode writes gobBytes(value) - an uninterpreted function of the value's content - or fails with gobErr(value); Decoder.Decode yields a fresh map related to the bytes by gobDecodedAs")
		c.eng.registerMapHeaps(types.NewMap(types.Typ[types.String], types.NewInterfaceType(nil, nil)))
		var hs []*Term
		for _, h := range []string{"Mdom:map[string]interface{}", "Msel:map[string]interface{}", "Mlen:map[string]interface{}"} {
			hs = append(hs, c.heap(st, h, c.eng.heapSorts[h]))
		}
		v := c.normJsonVal(args[1])
		txt := ts.UF("gobBytes", SString, append(append([]*Term{}, hs...), v)...)
		e := ts.UF("gobErr", SVal, append(append([]*Term{}, hs...), v)...)
		c.addFact(st, ts.Or(tc.IsNilVal(e), ts.App("(_ is VBox)", SBool, e)))
		w := c.gget(st, "G:geW", args[0])
		bufT := types.NewPointer(c.namedType("bytes", "Buffer"))
		isBuf := tc.IsType(bufT, w)
		bobj := tc.Unbox(bufT, w)
		oldb := c.gget(st, "G:buf", bobj)
		c.gset(st, "G:buf", bobj, ts.Ite(ts.And(isBuf, tc.IsNilVal(e)), ts.Concat(oldb, txt), oldb))
		if !isBuf.IsTrue() {
			c.trusted["gob.Encoder on a writer that is not a *bytes.Buffer: output not tracked"] = true
		}
		return []*Term{e}
	case "encoding/gob.NewDecoder":
		o := c.allocObj(st, "gobdec")
		c.gset(st, "G:gdSrc", o, args[0])
		return []*Term{o}
	case "(*encoding/gob.Decoder).Decode":
		use("encoding/gob: Encoder.Encode writes gobBytes(value) - an uninterpreted function of the value's content - or fails with gobErr(value); Decoder.Decode yields a fresh map related to the bytes by gobDecodedAs")
		return c.gobDecode(fr, st, x, args, cc)
	case "encoding/json.NewDecoder":
		use("encoding/json.NewDecoder(r) / Decoder.Decode(&m): decodes the next value of r's remaining bytes; value, error and end position are uninterpreted functions of those bytes and the UseNumber flag")
		o := c.allocObj(st, "jsondec")
		c.gset(st, "G:jdSrc", o, args[0])
		c.gset(st, "G:jdNum", o, ts.Bool(false))
		return []*Term{o}
	case "(*encoding/json.Decoder).UseNumber":
		c.gset(st, "G:jdNum", args[0], ts.Bool(true))
		return nil
	case "(*encoding/json.Decoder).Decode":
		use("encoding/json.NewDecoder(r) / Decoder.Decode(&m): decodes the next value of r's remaining bytes; value, error and end position are uninterpreted functions of those bytes and the UseNumber flag")
		return c.jsonDecode(fr, st, x, args, cc)
	case "sort.Sort":
		use("sort.Sort(x): permutes the underlying slice in place (same length, every element is one of the old elements); ordering facts are stated separately where needed")
		o, ok := fr.origin[cc.Args[0]]
		if !ok {
			unsupported("sort.Sort of a slice that is not held in a known variable")
		}
		old := c.load(st, o)
		np := ts.Fresh("sorted", old.sort)
		c.addFact(st, ts.Eq(ts.Len(np), ts.Len(old)))
		bv := ts.Bound("p", SInt)
		pi := ts.UF("perm!"+np.op, SInt, bv)
		c.addFact(st, ts.Quant("forall", bv, ts.Implies(ts.And(ts.Le(ts.Int(0), bv), ts.Lt(bv, ts.Len(np))),
			ts.And(ts.Le(ts.Int(0), pi), ts.Lt(pi, ts.Len(old)), ts.Eq(ts.Nth(np, bv), ts.Nth(old, pi))))))
		c.store(st, o, np)
		return nil
	case "encoding/xml.NewDecoder":
		use("xml.NewDecoder(r): a decoder object at token position 0, element depth 0, reading from r; it reads r byte by byte without read-ahead only if r is an io.ByteReader (otherwise it wraps r in a bufio.Reader)")
		// C13: a reader that is not an io.ByteReader would be wrapped in a bufio.Reader, which reads ahead into the next document
		c.addObl(st, "bytereader", fmt.Sprintf("#%d xml.NewDecoder", c.kindOrd["bytereader"]), c.implementsNamed(st, args[0], "io", "ByteReader"), x.Pos(), "the reader handed to xml.NewDecoder must be an io.ByteReader (no read-ahead)")
		o := c.allocObj(st, "xmldec")
		c.gset(st, "G:xdpos", o, ts.Int(0))
		c.gset(st, "G:xddepth", o, ts.Int(0))
		c.addFact(st, ts.Eq(ts.UF("xdsrc", SInt, o), c.ioID(args[0])))
		{
			// the text this decoder will tokenize: what its reader has not delivered yet
			id := c.ioID(args[0])
			data := ts.UF("rddata", SString, id)
			pos := c.gget(st, "G:rdpos", id)
			c.addFact(st, ts.Eq(ts.UF("xdata", SString, o), ts.Extract(data, pos, ts.Sub(ts.Len(data), pos))))
		}
		return []*Term{o}
	case "(*encoding/xml.Decoder).Token", "(*encoding/xml.Decoder).RawToken":
		raw := strings.HasSuffix(name, "RawToken")
		if raw {
			use("xml.Decoder.RawToken: returns the next token or an error; tokens are StartElement, EndElement, CharData, Comment, ProcInst or Directive values; no nesting guarantee")
		} else {
			use("xml.Decoder.Token: as RawToken, and guarantees well-nested elements: an EndElement is only returned while an element is open; io.EOF only outside all elements")
		}
		return c.tokenModel(st, args[0], raw, cc)
	case "(*encoding/xml.Decoder).InputOffset":
		r := ts.Fresh("inputoffset", SInt)
		c.addFact(st, ts.Ge(r, ts.Int(0)))
		return []*Term{r}
	}
	return c.modelMore(fr, st, x, name, args, cc)
}

// splitModel: strings.Split as an uninterpreted function with instantiated recursive definition (depth unfoldings).
func (c *FnCtx) splitModel(st *State, s, sep *Term, depth int) *Term {
	ts := c.eng.ts
	if l, ok := s.StrLit(); ok {
		if p, ok2 := sep.StrLit(); ok2 && p != "" {
			r := ts.EmptySeq(SeqOf(SString))
			for _, part := range strings.Split(l, p) {
				r = ts.Concat(r, ts.Unit(ts.Str(part)))
			}
			return r
		}
	}
	r := ts.UF("strings.Split", SeqOf(SString), s, sep)
	c.addFactT(st, r, ts.Ge(ts.Len(r), ts.Int(1)))
	nonEmptySep := ts.Not(ts.Eq(sep, ts.Str("")))
	has := ts.App("str.contains", SBool, s, sep)
	c.addFactT(st, r, ts.Implies(ts.And(nonEmptySep, ts.Not(has)), ts.Eq(r, ts.Unit(s))))
	c.addFactT(st, r, ts.Implies(ts.And(nonEmptySep, has), ts.Ge(ts.Len(r), ts.Int(2))))
	c.addFactT(st, r, ts.Implies(ts.And(nonEmptySep, ts.Eq(ts.Len(r), ts.Int(1))), ts.Eq(r, ts.Unit(s))))
	if depth > 0 {
		idx := ts.App("str.indexof", SInt, s, sep, ts.Int(0))
		head := ts.Extract(s, ts.Int(0), idx)
		restOff := ts.Add(idx, ts.Len(sep))
		rest := ts.Extract(s, restOff, ts.Sub(ts.Len(s), restOff))
		sub := c.splitModel(st, rest, sep, depth-1)
		c.addFactT(st, r, ts.Implies(ts.And(nonEmptySep, has), ts.Eq(r, ts.Concat(ts.Unit(head), sub))))
	}
	// Join inverts Split
	c.addFactT(st, r, ts.Implies(nonEmptySep, ts.Eq(ts.UF("strings.Join", SString, r, sep), s)))
	return r
}

func (c *FnCtx) joinModel(st *State, parts, sep *Term, depth int) *Term {
	ts := c.eng.ts
	r := ts.UF("strings.Join", SString, parts, sep)
	n := ts.Len(parts)
	c.addFactT(st, r, ts.Implies(ts.Eq(n, ts.Int(0)), ts.Eq(r, ts.Str(""))))
	c.addFactT(st, r, ts.Implies(ts.Eq(n, ts.Int(1)), ts.Eq(r, ts.Nth(parts, ts.Int(0)))))
	if depth > 0 {
		rest := ts.Extract(parts, ts.Int(1), ts.Sub(n, ts.Int(1)))
		sub := c.joinModel(st, rest, sep, depth-1)
		c.addFactT(st, r, ts.Implies(ts.Ge(n, ts.Int(2)), ts.Eq(r, ts.Concat(ts.Concat(ts.Nth(parts, ts.Int(0)), sep), sub))))
	}
	return r
}

// readModel: the io.Reader contract. The byte slice argument is updated in place (written back to where it was loaded from).
func (c *FnCtx) readModel(fr *Frame, st *State, x *ssa.Call, rd, p *Term, cc *ssa.CallCommon) []*Term {
	ts := c.eng.ts
	tc := c.eng.tc
	id := c.ioID(rd)
	data := ts.UF("rddata", SString, id)
	pos := c.gget(st, "G:rdpos", id)
	eofSeen := c.gget(st, "G:rdeof", id)
	n := ts.Fresh("rd!n", SInt)
	e := ts.Fresh("rd!err", SVal)
	eof := ts.Named("g!io.EOF", SVal)
	c.addFact(st, ts.And(ts.Le(ts.Int(0), pos), ts.Le(pos, ts.Len(data))))
	c.addFact(st, ts.And(ts.Le(ts.Int(0), n), ts.Le(n, ts.Len(p)), ts.Le(ts.Add(pos, n), ts.Len(data))))
	c.addFact(st, ts.Or(tc.IsNilVal(e), ts.App("(_ is VBox)", SBool, e)))
	c.addFact(st, ts.Not(tc.IsNilVal(eof)))
	// io.EOF is only returned once the stream is exhausted by this very call
	c.addFact(st, ts.Implies(ts.Eq(e, eof), ts.Eq(ts.Add(pos, n), ts.Len(data))))
	// after EOF has been reported: (0, EOF) forever
	c.addFact(st, ts.Implies(eofSeen, ts.And(ts.Eq(n, ts.Int(0)), ts.Eq(e, eof))))
	np := ts.Concat(ts.Extract(data, pos, n), ts.Extract(p, n, ts.Sub(ts.Len(p), n)))
	// write back into the caller's slice variable
	argIdx := len(cc.Args) - 1
	if o, ok := fr.origin[cc.Args[argIdx]]; ok && c.load(st, o) == p {
		c.store(st, o, np)
	} else if !(p.kind == kLit) {
		// the buffer is not held in a known variable: its new content is unobservable to this function only if it is not used afterwards
		c.trusted["Read into a slice that is not a known variable: new content not tracked"] = true
	}
	c.gset(st, "G:rdpos", id, ts.Add(pos, n))
	c.gset(st, "G:rdeof", id, ts.Or(eofSeen, ts.Eq(e, eof)))
	return []*Term{n, e}
}

// modelMore: coarse models; anything unknown is a havoc of results and of memory reachable through pointer arguments.
func (c *FnCtx) modelMore(fr *Frame, st *State, x *ssa.Call, name string, args []*Term, cc *ssa.CallCommon) []*Term {
	ts := c.eng.ts
	use := func(s string) { c.trusted["stdlib: "+s] = true }
	switch name {
	case "reflect.ValueOf", "reflect.TypeOf", "(reflect.Value).Kind", "(reflect.Type).Kind", "(reflect.Value).MapKeys", "(reflect.Value).MapIndex", "(reflect.Value).Interface":
		use("reflect: uninterpreted deterministic functions")
		rs := cc.Signature().Results()
		var out []*Term
		for i := 0; i < rs.Len(); i++ {
			out = append(out, ts.UF(fmt.Sprintf("%s!%d", name, i), c.eng.tc.SortOf(rs.At(i).Type()), args...))
		}
		if name == "reflect.TypeOf" {
			// TypeOf(x) is nil exactly for a nil interface value
			c.addFactT(st, out[0], ts.Eq(c.eng.tc.IsNilVal(out[0]), c.eng.tc.IsNilVal(args[0])))
			c.addFactT(st, out[0], ts.Or(c.eng.tc.IsNilVal(out[0]), ts.App("(_ is VBox)", SBool, out[0])))
		}
		return out
	case "os.Stat", "os.Open", "os.Create", "os.OpenFile":
		use(name + ": returns a non-nil object exactly when err == nil")
		res := c.freshResults(st, cc, "os")
		isNil := c.eng.tc.IsNilVal(res[1])
		if res[0].sort == SVal {
			c.addFact(st, ts.Eq(isNil, ts.Not(c.eng.tc.IsNilVal(res[0]))))
		} else {
			c.addFact(st, ts.Eq(isNil, ts.Not(ts.Eq(res[0], ts.Int(0)))))
		}
		if (name == "os.Create" || name == "os.OpenFile") && res[0].sort == SInt {
			// ghost file system: content per path; a file opened for writing is bound to its path; only a
			// truncating open (os.Create, or OpenFile with O_TRUNC and write access) starts from empty content
			use("os.Create / os.OpenFile(O_TRUNC): on success the file is empty and bound to the path; without O_TRUNC the resulting content is unknown")
			fsid := ts.UF("fsid", SInt, args[0])
			trunc := ts.Bool(name == "os.Create")
			if name == "os.OpenFile" {
				if fl, ok := args[1].IntLit(); ok {
					trunc = ts.Bool(fl&0x200 != 0 && fl&0x3 != 0)
				} else {
					trunc = ts.Fresh("os!trunc", SBool)
				}
			}
			c.addFact(st, ts.Implies(isNil, ts.Eq(ts.UF("filefs", SInt, res[0]), fsid)))
			c.gset(st, "G:ftrunc", res[0], trunc)
			old := c.gget(st, "G:fs", fsid)
			c.gset(st, "G:fs", fsid, ts.Ite(ts.And(isNil, trunc), ts.Str(""), ts.Ite(isNil, old, ts.Fresh("os!content", SString))))
		}
		return res
	case "(*os.File).WriteString":
		use("(*os.File).WriteString(s): writes a prefix s[:n] at the end of a file opened truncating; n == len(s) exactly when err == nil")
		n := ts.Fresh("fw!n", SInt)
		e := ts.Fresh("fw!err", SVal)
		c.addFact(st, ts.And(ts.Le(ts.Int(0), n), ts.Le(n, ts.Len(args[1]))))
		c.addFact(st, ts.Or(c.eng.tc.IsNilVal(e), ts.App("(_ is VBox)", SBool, e)))
		c.addFact(st, ts.Eq(c.eng.tc.IsNilVal(e), ts.Eq(n, ts.Len(args[1]))))
		fsid := ts.UF("filefs", SInt, args[0])
		old := c.gget(st, "G:fs", fsid)
		c.gset(st, "G:fs", fsid, ts.Ite(c.gget(st, "G:ftrunc", args[0]), ts.Concat(old, ts.Extract(args[1], ts.Int(0), n)), ts.Fresh("os!content", SString)))
		return []*Term{n, e}
	case "(*os.File).Close":
		return []*Term{ts.Fresh("close!err", SVal)}
	}
	// functions of the mxj core called from a compatibility sub-package: deterministic summaries threaded through a
	// ghost "world" token (any core call may change Maps and is ordered after the previous ones)
	if callee := cc.StaticCallee(); callee != nil && callee.Pkg != nil && strings.HasPrefix(callee.Pkg.Pkg.Path(), modPath) && callee.Pkg != c.eng.ld.SSA {
		c.trusted["core functions called from a sub-package enter as deterministic summaries f(world, Map heaps, args) with a world token threaded through the calls (their own behaviour is verified in package mxj)"] = true
		w := c.getCell(st, c.worldCell())
		c.eng.registerMapHeaps(types.NewMap(types.Typ[types.String], types.NewInterfaceType(nil, nil)))
		uargs := []*Term{w}
		for _, h := range []string{"Mdom:map[string]interface{}", "Msel:map[string]interface{}", "Mlen:map[string]interface{}"} {
			uargs = append(uargs, c.heap(st, h, c.eng.heapSorts[h]))
		}
		uargs = append(uargs, args...)
		rs := cc.Signature().Results()
		var out []*Term
		fname := sanitize(callee.String())
		for i := 0; i < rs.Len(); i++ {
			r := ts.UF(fmt.Sprintf("core!%s!%d", fname, i), c.eng.tc.SortOf(rs.At(i).Type()), uargs...)
			c.typeFactsT(st, r, rs.At(i).Type())
			out = append(out, r)
		}
		c.setCell(st, c.worldCell(), ts.UF("core!"+fname+"!world", SInt, uargs...))
		// results may be freshly allocated objects
		nw := ts.Fresh("wm!core", SInt)
		c.addFact(st, ts.Ge(nw, st.wm))
		st.wm = nw
		if c.writeLog != nil {
			c.writeLog.wm = true
		}
		return out
	}
	// generic: deterministic? no — arbitrary results
	use(name + ": unmodelled — results arbitrary; memory behind pointer arguments havocked")
	sig := cc.Signature()
	off := 0
	if sig.Recv() != nil && !cc.IsInvoke() {
		off = 1
	}
	for i, a := range args {
		var t types.Type
		if i < off {
			t = sig.Recv().Type()
		} else if i-off < sig.Params().Len() {
			t = sig.Params().At(i - off).Type()
		} else {
			continue
		}
		if cc.IsInvoke() && i == 0 {
			continue
		}
		if pt, ok := t.Underlying().(*types.Pointer); ok {
			el := pt.Elem()
			if isOpaqueStruct(el) {
				for _, mt := range opaqueModifies(c, el, a) {
					srt := c.heapSort(mt.heap)
					_, es := srt.ArrParts()
					c.setHeapAt(st, mt.heap, srt, a, ts.Fresh("ext!"+mt.heap, es))
				}
				continue
			}
			if isStructNonOpaque(el) {
				stt := el.Underlying().(*types.Struct)
				for f := 0; f < stt.NumFields(); f++ {
					hn, hs := c.fieldHeapName(el, f)
					_, es := hs.ArrParts()
					c.setHeapAt(st, hn, hs, a, ts.Fresh("ext!"+hn, es))
				}
				continue
			}
			hn, hs := c.ptrHeapName(el)
			_, es := hs.ArrParts()
			c.setHeapAt(st, hn, hs, a, ts.Fresh("ext!"+hn, es))
		}
	}
	// callee may allocate
	nw := ts.Fresh("wm!ext", SInt)
	c.addFact(st, ts.Ge(nw, st.wm))
	st.wm = nw
	if c.writeLog != nil {
		c.writeLog.wm = true
	}
	return c.freshResults(st, cc, "ext!"+sanitize(name))
}

// tokenModel: the assumed contract of (*xml.Decoder).Token / RawToken over a ghost token list.
func (c *FnCtx) tokenModel(st *State, dec *Term, raw bool, cc *ssa.CallCommon) []*Term {
	ts := c.eng.ts
	tc := c.eng.tc
	pos := c.gget(st, "G:xdpos", dec)
	depth := c.gget(st, "G:xddepth", dec)
	c.addFact(st, ts.And(ts.Ge(pos, ts.Int(0)), ts.Ge(depth, ts.Int(0))))
	tok := ts.UF("xdtok", SVal, dec, pos)
	err := ts.UF("xderr", SVal, dec, pos)
	eof := ts.Named("g!io.EOF", SVal)
	c.addFact(st, ts.Or(tc.IsNilVal(err), ts.App("(_ is VBox)", SBool, err)))
	c.addFact(st, ts.Not(tc.IsNilVal(eof)))
	// token kinds
	pkg := cc.Signature().Results().At(0).Type().(*types.Named).Obj().Pkg()
	kind := func(n string) types.Type { return pkg.Scope().Lookup(n).Type() }
	kinds := []string{"StartElement", "EndElement", "CharData", "Comment", "ProcInst", "Directive"}
	var is []*Term
	for _, k := range kinds {
		is = append(is, tc.IsType(kind(k), tok))
	}
	ok := tc.IsNilVal(err)
	c.addFact(st, ts.Implies(ok, ts.Or(is...)))
	// element names are never empty
	if se, isSt := kind("StartElement").Underlying().(*types.Struct); isSt {
		sv := tc.Unbox(kind("StartElement"), tok)
		nameT := se.Field(0).Type()
		local := tc.Field(nameT, tc.Field(kind("StartElement"), sv, 0), 1)
		c.addFact(st, ts.Implies(ts.And(ok, is[0]), ts.Gt(ts.Len(local), ts.Int(0))))
	}
	res := ts.Ite(ok, tok, nilVal(ts))
	c.gset(st, "G:xdpos", dec, ts.Ite(ok, ts.Add(pos, ts.Int(1)), pos))
	if !raw {
		isStart, isEnd := is[0], is[1]
		c.addFact(st, ts.Implies(ts.And(ok, isEnd), ts.Ge(depth, ts.Int(1))))
		c.addFact(st, ts.Implies(ts.Eq(err, eof), ts.Eq(depth, ts.Int(0))))
		// definition of well-formedness used by the validity clauses (C05): Token reports io.EOF only after it has
		// accepted the decoder's entire input (positions only advance on accepted tokens)
		c.addFact(st, ts.Implies(ts.Eq(err, eof), ts.UF("xmlWellFormed", SBool, ts.UF("xdata", SString, dec))))
		nd := ts.Ite(ts.And(ok, isStart), ts.Add(depth, ts.Int(1)), ts.Ite(ts.And(ok, isEnd), ts.Sub(depth, ts.Int(1)), depth))
		c.gset(st, "G:xddepth", dec, nd)
	}
	return []*Term{res, err}
}

// heapRelIntrinsic: two-state predicates of postconditions, relating the map heaps of the pre-state ("old":
// the state at function entry, or just before a call) to the current ones.
func (c *FnCtx) heapRelIntrinsic(st *State, name string, args []*Term) []*Term {
	ts := c.eng.ts
	old := c.oldState
	if old == nil {
		unsupported("%s is only meaningful in a postcondition", name)
	}
	mt := types.NewMap(types.Typ[types.String], types.NewInterfaceType(nil, nil))
	mh := c.mapHeaps(st, mt)
	dom0, sel0, len0 := c.heap(old, mh.dom, mh.sdom), c.heap(old, mh.sel, mh.ssel), c.heap(old, mh.ln, mh.sln)
	dom1, sel1, len1 := c.heap(st, mh.dom, mh.sdom), c.heap(st, mh.sel, mh.ssel), c.heap(st, mh.ln, mh.sln)
	switch name {
	case "verifMapsSameExcept": // every map that existed in the old state, other than p, has the same entries
		o := ts.Bound("o", SInt)
		c.frameFacts(dom1, o)
		body := ts.And(ts.Eq(ts.Select(dom1, o), ts.Select(dom0, o)), ts.Eq(ts.Select(sel1, o), ts.Select(sel0, o)), ts.Eq(ts.Select(len1, o), ts.Select(len0, o)))
		return []*Term{ts.Quant("forall", o, ts.Implies(ts.And(ts.Lt(ts.Int(0), o), ts.Lt(o, old.wm), ts.Not(ts.Eq(o, args[0]))), body))}
	case "verifMapSameExceptKey", "verifMapSameExceptKeys": // map p has the same entries as before except at the given key(s)
		k := ts.Bound("k", SString)
		conds := []*Term{ts.Not(ts.Eq(k, args[1]))}
		if name == "verifMapSameExceptKeys" {
			conds = append(conds, ts.Not(ts.Eq(k, args[2])))
		}
		d1, d0 := ts.Select(dom1, args[0]), ts.Select(dom0, args[0])
		s1, s0 := ts.Select(sel1, args[0]), ts.Select(sel0, args[0])
		body := ts.And(ts.Eq(ts.Select(d1, k), ts.Select(d0, k)), ts.Implies(ts.Select(d0, k), ts.Eq(ts.Select(s1, k), ts.Select(s0, k))))
		return []*Term{ts.Quant("forall", k, ts.Implies(ts.And(conds...), body))}
	case "verifOldHas":
		return []*Term{ts.Select(ts.Select(dom0, args[0]), args[1])}
	case "verifMapUnchanged": // map p has exactly the entries it had in the old state
		return []*Term{ts.And(ts.Eq(ts.Select(dom1, args[0]), ts.Select(dom0, args[0])), ts.Eq(ts.Select(sel1, args[0]), ts.Select(sel0, args[0])), ts.Eq(ts.Select(len1, args[0]), ts.Select(len0, args[0])))}
	case "verifGrowsB": // map[string]bool used as a set: every member of the old set is still a member
		mhb := c.mapHeaps(st, types.NewMap(types.Typ[types.String], types.Typ[types.Bool]))
		d0, s0 := c.heap(old, mhb.dom, mhb.sdom), c.heap(old, mhb.sel, mhb.ssel)
		d1, s1 := c.heap(st, mhb.dom, mhb.sdom), c.heap(st, mhb.sel, mhb.ssel)
		k := ts.BoundNamed("k!grows", SString)
		in0 := ts.And(ts.Select(ts.Select(d0, args[0]), k), ts.Select(ts.Select(s0, args[0]), k))
		in1 := ts.And(ts.Select(ts.Select(d1, args[0]), k), ts.Select(ts.Select(s1, args[0]), k))
		return []*Term{ts.Quant("forall", k, ts.Implies(in0, in1))}
	case "verifOldTrueB": // map[string]bool: the entry was present and true in the old state
		mhb := c.mapHeaps(st, types.NewMap(types.Typ[types.String], types.Typ[types.Bool]))
		d0, s0 := c.heap(old, mhb.dom, mhb.sdom), c.heap(old, mhb.sel, mhb.ssel)
		return []*Term{ts.And(ts.Select(ts.Select(d0, args[0]), args[1]), ts.Select(ts.Select(s0, args[0]), args[1]))}
	case "verifOldGet":
		return []*Term{ts.Select(ts.Select(sel0, args[0]), args[1])}
	case "verifOldLen":
		return []*Term{ts.Select(len0, args[0])}
	}
	unsupported("heapRelIntrinsic %s", name)
	return nil
}

// implementsNamed: the dynamic type of interface value v implements the named interface pkg.Name.
func (c *FnCtx) implementsNamed(st *State, v *Term, pkgName, name string) *Term {
	for _, p := range c.eng.ld.Pkg.Imports() {
		if p.Name() == pkgName {
			if o := p.Scope().Lookup(name); o != nil {
				return c.implements(st, v, o.Type())
			}
		}
	}
	unsupported("interface %s.%s not imported by the package", pkgName, name)
	return nil
}

func (c *FnCtx) namedType(pkgName, name string) types.Type {
	var find func(p *types.Package, seen map[*types.Package]bool) types.Type
	find = func(p *types.Package, seen map[*types.Package]bool) types.Type {
		if seen[p] {
			return nil
		}
		seen[p] = true
		if p.Name() == pkgName {
			if o := p.Scope().Lookup(name); o != nil {
				return o.Type()
			}
		}
		for _, q := range p.Imports() {
			if t := find(q, seen); t != nil {
				return t
			}
		}
		return nil
	}
	t := find(c.eng.ld.Pkg, map[*types.Package]bool{})
	if t == nil {
		unsupported("type %s.%s not available", pkgName, name)
	}
	return t
}

// jsonText / jsonErr: uninterpreted summaries of encoding/json's marshalling of a value (a function of the Map heaps).
func (c *FnCtx) jsonText(st *State, v, esc *Term) (*Term, *Term) {
	ts := c.eng.ts
	c.eng.registerMapHeaps(types.NewMap(types.Typ[types.String], types.NewInterfaceType(nil, nil)))
	var hs []*Term
	for _, h := range []string{"Mdom:map[string]interface{}", "Msel:map[string]interface{}", "Mlen:map[string]interface{}"} {
		hs = append(hs, c.heap(st, h, c.eng.heapSorts[h]))
	}
	v = c.normJsonVal(v)
	txt := ts.UF("jsonText", SString, append(append([]*Term{}, hs...), v, esc)...)
	// the text of a successfully marshalled value is valid JSON
	c.addFactT(st, txt, ts.UF("jsonValid", SBool, txt))
	// a map marshals to an object: the text starts with '{'
	c.addFactT(st, txt, ts.Implies(ts.And(c.eng.tc.IsNilVal(e0(ts, hs, v)), ts.App("(_ is VMap)", SBool, v)), ts.App("str.prefixof", SBool, ts.Str("{"), txt)))
	e := ts.UF("jsonErr", SVal, append(append([]*Term{}, hs...), v)...)
	c.addFactT(st, e, ts.Or(c.eng.tc.IsNilVal(e), ts.App("(_ is VBox)", SBool, e)))
	return txt, e
}

// normJsonVal: Map and map[string]interface{} marshal identically: use the plain map representation.
func (c *FnCtx) normJsonVal(v *Term) *Term {
	ts := c.eng.ts
	for id, t := range c.eng.tc.tidTypes {
		if n, ok := t.(*types.Named); ok && n.Obj().Name() == "Map" && typeKey(n.Underlying()) == "map[string]interface{}" {
			isMap := c.eng.tc.IsType(t, v)
			_ = id
			return ts.Ite(isMap, ts.App("VMap", SVal, c.eng.tc.Unbox(t, v)), v)
		}
	}
	return v
}

// jsonDecode: Decoder.Decode(&m) for m a map[string]interface{} variable.
func (c *FnCtx) jsonDecode(fr *Frame, st *State, x *ssa.Call, args []*Term, cc *ssa.CallCommon) []*Term {
	ts := c.eng.ts
	tc := c.eng.tc
	src := c.gget(st, "G:jdSrc", args[0])
	num := c.gget(st, "G:jdNum", args[0])
	id := c.ioID(src)
	data := ts.UF("rddata", SString, id)
	pos := c.gget(st, "G:rdpos", id)
	rest := ts.Extract(data, pos, ts.Sub(ts.Len(data), pos))
	e := ts.UF("jsonDecErr", SVal, rest, num)
	c.addFact(st, ts.Or(tc.IsNilVal(e), ts.App("(_ is VBox)", SBool, e)))
	end := ts.UF("jsonDecEnd", SInt, rest)
	c.addFact(st, ts.And(ts.Le(ts.Int(0), end), ts.Le(end, ts.Len(rest))))
	c.gset(st, "G:rdpos", id, ts.Add(pos, end))
	// the target: pointer to a map variable
	mt := types.NewMap(types.Typ[types.String], types.NewInterfaceType(nil, nil))
	ptrT := types.NewPointer(mt)
	target := args[1]
	if !tc.IsType(ptrT, target).IsTrue() {
		c.trusted["json/gob Decode into a target that is not a *map[string]interface{}: effect not modelled"] = true
	}
	obj := tc.Unbox(ptrT, target)
	hn, hs := c.ptrHeapName(mt)
	nm := c.allocObj(st, "decoded")
	// on success the variable holds a freshly allocated map whose content is the decoded value
	old := c.hget(st, hn, hs, obj)
	c.setHeapAt(st, hn, hs, obj, ts.Ite(tc.IsNilVal(e), nm, ts.Fresh("partial", SInt)))
	_ = old
	// abstract relation between the new map and the text it was decoded from (for postconditions)
	mh := c.mapHeaps(st, mt)
	c.setHeapAt(st, mh.dom, mh.sdom, nm, ts.Fresh("decoded!dom", ArrOf(SString, SBool)))
	c.setHeapAt(st, mh.sel, mh.ssel, nm, ts.Fresh("decoded!sel", ArrOf(SString, SVal)))
	c.setHeapAt(st, mh.ln, mh.sln, nm, ts.Fresh("decoded!len", SInt))
	rel := ts.UF("jsonDecodedAs", SBool, c.heap(st, mh.dom, mh.sdom), c.heap(st, mh.sel, mh.ssel), c.heap(st, mh.ln, mh.sln), nm, rest, num)
	c.addFact(st, ts.Implies(tc.IsNilVal(e), rel))
	c.addFact(st, ts.Ge(c.hget(st, mh.ln, mh.sln, nm), ts.Int(0)))
	return []*Term{e}
}

func e0(ts *TermStore, hs []*Term, v *Term) *Term {
	return ts.UF("jsonErr", SVal, append(append([]*Term{}, hs...), v)...)
}

func (c *FnCtx) gobDecode(fr *Frame, st *State, x *ssa.Call, args []*Term, cc *ssa.CallCommon) []*Term {
	ts := c.eng.ts
	tc := c.eng.tc
	src := c.gget(st, "G:gdSrc", args[0])
	id := c.ioID(src)
	data := ts.UF("rddata", SString, id)
	pos := c.gget(st, "G:rdpos", id)
	rest := ts.Extract(data, pos, ts.Sub(ts.Len(data), pos))
	e := ts.UF("gobDecErr", SVal, rest)
	c.addFact(st, ts.Or(tc.IsNilVal(e), ts.App("(_ is VBox)", SBool, e)))
	mt := types.NewMap(types.Typ[types.String], types.NewInterfaceType(nil, nil))
	ptrT := types.NewPointer(mt)
	obj := tc.Unbox(ptrT, args[1])
	hn, hs := c.ptrHeapName(mt)
	nm := c.allocObj(st, "gobdecoded")
	old := c.hget(st, hn, hs, obj)
	// on success the variable holds a map with the decoded content (gob reuses a non-nil map: entries are added; mxj always passes an empty one)
	c.setHeapAt(st, hn, hs, obj, ts.Ite(tc.IsNilVal(e), nm, old))
	mh := c.mapHeaps(st, mt)
	c.setHeapAt(st, mh.dom, mh.sdom, nm, ts.Fresh("gobdecoded!dom", ArrOf(SString, SBool)))
	c.setHeapAt(st, mh.sel, mh.ssel, nm, ts.Fresh("gobdecoded!sel", ArrOf(SString, SVal)))
	c.setHeapAt(st, mh.ln, mh.sln, nm, ts.Fresh("gobdecoded!len", SInt))
	rel := ts.UF("gobDecodedAs", SBool, c.heap(st, mh.dom, mh.sdom), c.heap(st, mh.sel, mh.ssel), c.heap(st, mh.ln, mh.sln), nm, rest)
	c.addFact(st, ts.Implies(tc.IsNilVal(e), rel))
	c.addFact(st, ts.Ge(c.hget(st, mh.ln, mh.sln, nm), ts.Int(0)))
	c.trusted["gob.Decoder.Decode into a non-empty map is modelled as replacing it (mxj always passes a freshly made empty map)"] = true
	return []*Term{e}
}

func (c *FnCtx) worldCell() *Cell {
	if c.eng.world == nil {
		c.eng.cellSeq++
		c.eng.world = &Cell{name: "world", id: c.eng.cellSeq, ghostSort: SInt}
		c.eng.world.init = c.eng.ts.Named("world!0", SInt)
	}
	return c.eng.world
}

// typeFactsT: like typeFacts but triggered on the value (for uninterpreted results that may go unused).
func (c *FnCtx) typeFactsT(st *State, v *Term, t types.Type) {
	switch u := t.Underlying().(type) {
	case *types.Interface:
		if u.NumMethods() > 0 {
			c.addFactT(st, v, c.eng.ts.Or(c.eng.tc.IsNilVal(v), c.eng.ts.App("(_ is VBox)", SBool, v)))
		}
	case *types.Pointer, *types.Map:
		c.addFactT(st, v, c.eng.ts.Le(c.eng.ts.Int(0), v))
	}
}
