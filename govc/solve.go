package main

// Discharging obligations with a portfolio of SMT solvers.

import (
	"bytes"
	"context"
	"fmt"
	"os"
	"os/exec"
	"path/filepath"
	"strings"
	"sync"
	"time"
)

type solverSpec struct {
	name string
	argv func(file string, timeoutS int, seed int) []string
	pre  string // extra prelude lines (set-logic etc.)
}

var solvers = []solverSpec{
	{name: "z3-5.1.0", argv: func(f string, t, seed int) []string {
		return []string{"z3-new", fmt.Sprintf("-T:%d", t), fmt.Sprintf("smt.random_seed=%d", seed), f}
	}},
	{name: "cvc5-1.0", argv: func(f string, t, seed int) []string {
		return []string{"cvc5", "--strings-exp", "--dt-nested-rec", "--arrays-exp", fmt.Sprintf("--tlimit=%d", t*1000), fmt.Sprintf("--seed=%d", seed), f}
	}, pre: "(set-logic ALL)\n"},
	{name: "z3-4.8.12", argv: func(f string, t, seed int) []string {
		return []string{"z3", fmt.Sprintf("-T:%d", t), fmt.Sprintf("smt.random_seed=%d", seed), f}
	}},
}

type solveResult struct {
	status string // unsat sat unknown timeout error
	solver string
	secs   float64
	output string
}

func runSolver(ctx context.Context, sp solverSpec, file string, timeoutS, seed int) solveResult {
	argv := sp.argv(file, timeoutS, seed)
	t0 := time.Now()
	cctx, cancel := context.WithTimeout(ctx, time.Duration(timeoutS+2)*time.Second)
	defer cancel()
	cmd := exec.CommandContext(cctx, argv[0], argv[1:]...)
	var out bytes.Buffer
	cmd.Stdout = &out
	cmd.Stderr = &out
	_ = cmd.Run()
	secs := time.Since(t0).Seconds()
	text := out.String()
	first := ""
	for _, l := range strings.Split(text, "\n") {
		l = strings.TrimSpace(l)
		if l == "" || strings.HasPrefix(l, "(warning") || strings.Contains(l, "No set-logic") || strings.Contains(l, "will make all theories") || strings.Contains(l, "stricter logic") || strings.Contains(l, "suppress this warning") {
			continue
		}
		first = l
		break
	}
	st := "error"
	switch {
	case first == "unsat":
		st = "unsat"
	case first == "sat":
		st = "sat"
	case first == "unknown":
		st = "unknown"
	case strings.HasPrefix(first, "timeout") || cctx.Err() != nil || strings.Contains(text, "interrupted by timeout"):
		st = "timeout"
	}
	return solveResult{status: st, solver: sp.name, secs: secs, output: text}
}

// Discharge runs the portfolio on one obligation. First definitive answer (unsat/sat) wins.
func (e *Engine) Discharge(o *Obligation, dir string, idx int, timeoutS int, seed int) {
	e.discharge1(o, dir, idx, timeoutS, seed)
	if (o.Status == "unsat" || o.Status == "trivial") || len(o.Parts) == 0 || o.Kind == "cover" {
		return
	}
	// second formulation: prove the goal separately on every merged path
	total := 0.0
	solver := ""
	for k, part := range o.Parts {
		sub := &Obligation{Name: fmt.Sprintf("%s/%d", o.Name, k), Kind: o.Kind, Func: o.Func, Goal: part, NFacts: o.NFacts, Ctx: o.Ctx, Src: o.Src}
		if part.IsTrue() {
			continue
		}
		e.discharge1(sub, dir, idx*100+k+50000, timeoutS, seed)
		total += sub.Time
		if sub.Status != "unsat" {
			return // keep the verdict (and model) of the unsplit attempt
		}
		solver = sub.Solver
	}
	o.Status = "unsat"
	o.Solver = solver + " (per-path)"
	o.Time += total
	o.Model = ""
}

func (e *Engine) discharge1(o *Obligation, dir string, idx int, timeoutS int, seed int) {
	if o.Status == "trivial" {
		o.Solver = "simplifier"
		return
	}
	coverOnly := o.Kind == "cover"
	if coverOnly && timeoutS > 2 {
		timeoutS = 2
	}
	c := o.Ctx
	hyps := relevantFacts(c, o.NFacts, o.Goal)
	var gv []*Term
	for _, in := range c.inputs {
		gv = append(gv, in)
	}
	if os.Getenv("GOVC_DEBUG_MODEL") != "" {
		seen := map[int]bool{}
		var walk func(t *Term)
		walk = func(t *Term) {
			if seen[t.id] {
				return
			}
			seen[t.id] = true
			if t.kind == kVar && !t.sort.IsArr() {
				gv = append(gv, t)
			}
			if t.kind == kUF && len(gv) < 400 {
				gv = append(gv, t)
			}
			for _, a := range t.args {
				walk(a)
			}
		}
		walk(o.Goal)
	}
	body := e.ts.Script("", e.tc.Datatypes(), hyps, o.Goal, gv)
	file := filepath.Join(dir, fmt.Sprintf("obl-%04d.smt2", idx))
	write := func(sp solverSpec) string {
		f := file
		if sp.pre != "" {
			f = strings.TrimSuffix(file, ".smt2") + "-" + sp.name + ".smt2"
		}
		txt := "; obligation: " + o.Name + "\n; clause: " + strings.ReplaceAll(o.Src, "\n", " ") + "\n(set-option :produce-models true)\n" + sp.pre + preludeVal + body.Text
		os.WriteFile(f, []byte(txt), 0o644)
		return f
	}
	var all []solveResult
	var win *solveResult
	// stage 1: the fastest solver alone with a short limit (decides the bulk of the obligations)
	{
		quick := 2
		if timeoutS < quick {
			quick = timeoutS
		}
		r := runSolver(context.Background(), solvers[0], write(solvers[0]), quick, seed)
		all = append(all, r)
		if r.status == "unsat" || r.status == "sat" {
			win = &r
		}
	}
	// stage 2: the whole portfolio with the full limit
	if win == nil && !coverOnly {
		ctx, cancel := context.WithCancel(context.Background())
		defer cancel()
		results := make(chan solveResult, len(solvers))
		var wg sync.WaitGroup
		for _, sp := range solvers {
			sp := sp
			f := write(sp)
			wg.Add(1)
			go func() {
				defer wg.Done()
				results <- runSolver(ctx, sp, f, timeoutS, seed)
			}()
		}
		go func() { wg.Wait(); close(results) }()
		for r := range results {
			r := r
			all = append(all, r)
			if r.status == "unsat" || r.status == "sat" {
				win = &r
				cancel()
				break
			}
		}
	}
	if win == nil {
		// no definitive answer
		o.Status = "unknown"
		var sb strings.Builder
		for _, r := range all {
			fmt.Fprintf(&sb, "[%s %.2fs] %s: %s\n", r.solver, r.secs, r.status, firstLines(r.output, 3))
			if r.status == "timeout" {
				o.Status = "timeout"
			}
			o.Time += r.secs
		}
		o.Output = sb.String()
		o.Solver = "none"
		return
	}
	o.Status = win.status
	o.Solver = win.solver
	o.Time = win.secs
	if win.status == "sat" {
		o.Model = win.output
	}
	n := 40
	if os.Getenv("GOVC_DEBUG_MODEL") != "" {
		n = 400
	}
	o.Output = fmt.Sprintf("[%s %.2fs] %s", win.solver, win.secs, firstLines(win.output, n))
	o.SMTFile = file
}

func firstLines(s string, n int) string {
	ls := strings.Split(strings.TrimSpace(s), "\n")
	if len(ls) > n {
		ls = ls[:n]
	}
	return strings.Join(ls, "\n")
}

// relevantFacts keeps untriggered facts and those triggered facts whose trigger term occurs in the goal or in a kept fact.
func relevantFacts(c *FnCtx, n int, goal *Term) []*Term {
	facts, trigs := c.facts[:n], c.triggers[:n]
	reach := map[int]bool{}
	nthOf := map[int]bool{} // sequences some element of which is mentioned by the goal (or by a fact pulled in for the goal)
	var mark func(t *Term, nth bool)
	mark = func(t *Term, nth bool) {
		if reach[t.id] && !(nth && t.kind == kApp && t.op == "seq.nth") {
			return
		}
		reach[t.id] = true
		if nth && t.kind == kApp && t.op == "seq.nth" {
			nthOf[t.args[0].id] = true
		}
		for _, a := range t.args {
			mark(a, nth)
		}
	}
	var markNth func(t *Term, seen map[int]bool)
	markNth = func(t *Term, seen map[int]bool) {
		if seen[t.id] {
			return
		}
		seen[t.id] = true
		if t.kind == kApp && t.op == "seq.nth" {
			nthOf[t.args[0].id] = true
		}
		for _, a := range t.args {
			markNth(a, seen)
		}
	}
	markNth(goal, map[int]bool{})
	mark(goal, false)
	keep := make([]bool, len(facts))
	for i, f := range facts {
		if trigs[i] == nil {
			keep[i] = true
			mark(f, false)
		}
	}
	for changed := true; changed; {
		changed = false
		for i, f := range facts {
			if keep[i] {
				continue
			}
			ok := reach[trigs[i].id]
			if c.trigNth[i] {
				ok = nthOf[trigs[i].id]
			}
			if ok {
				keep[i] = true
				mark(f, false)
				if c.trigNth[i] {
					markNth(f, map[int]bool{})
				}
				changed = true
			}
		}
	}
	var out []*Term
	for i, f := range facts {
		if keep[i] {
			out = append(out, f)
		}
	}
	return out
}
