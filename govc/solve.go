package main

// Discharging obligations with a portfolio of SMT solvers.

import (
	"sort"
	"bytes"
	"context"
	"fmt"
	"os"
	"os/exec"
	"path/filepath"
	"strings"
	"sync"
	"time"
)

var tsMu sync.Mutex

// crossCheck: thorough tier — every unsat answer is re-checked by the other solver family.
var crossCheck bool

var noAnyIdx = os.Getenv("GOVC_NOANYIDX") != ""

type solverSpec struct {
	name string
	argv func(file string, timeoutS int, seed int) []string
	pre  string // extra prelude lines (set-logic etc.)
	noNthPat bool // script variant without quantifier patterns that mention seq.nth
}

var solvers = []solverSpec{
	{name: "z3-5.1.0", argv: func(f string, t, seed int) []string {
		return []string{"z3-new", fmt.Sprintf("-T:%d", t), fmt.Sprintf("smt.random_seed=%d", seed), f}
	}},
	{name: "cvc5-1.0", argv: func(f string, t, seed int) []string {
		return []string{"cvc5", "--strings-exp", "--dt-nested-rec", "--arrays-exp", fmt.Sprintf("--tlimit=%d", t*1000), fmt.Sprintf("--seed=%d", seed), f}
	}, pre: "(set-logic ALL)\n"},
	{name: "z3-4.8.12", argv: func(f string, t, seed int) []string {
		return []string{"z3", fmt.Sprintf("-T:%d", t), fmt.Sprintf("smt.random_seed=%d", seed), f}
	}},
	{name: "z3-5.1.0-mbqi", argv: func(f string, t, seed int) []string {
		return []string{"z3-new", fmt.Sprintf("-T:%d", t), fmt.Sprintf("smt.random_seed=%d", seed), f}
	}, noNthPat: true},
}

type solveResult struct {
	status string // unsat sat unknown timeout error
	solver string
	secs   float64
	output string
}

// Solver limits are CPU-time limits (prlimit --cpu), so that a loaded machine makes the checks slower, not different; the
// wall-clock limits handed to the solvers themselves are 6 times larger and only a backstop.
func runSolver(ctx context.Context, sp solverSpec, file string, timeoutS, seed int) solveResult {
	wall := timeoutS * 6
	argv := sp.argv(file, wall, seed)
	if _, err := exec.LookPath("prlimit"); err == nil {
		argv = append([]string{"prlimit", fmt.Sprintf("--cpu=%d", timeoutS+1), "--"}, argv...)
	} else {
		wall = timeoutS
		argv = sp.argv(file, wall, seed)
	}
	t0 := time.Now()
	cctx, cancel := context.WithTimeout(ctx, time.Duration(wall+2)*time.Second)
	defer cancel()
	cmd := exec.CommandContext(cctx, argv[0], argv[1:]...)
	var out bytes.Buffer
	cmd.Stdout = &out
	cmd.Stderr = &out
	runErr := cmd.Run()
	killed := false
	if ee, ok := runErr.(*exec.ExitError); ok && ee.ProcessState != nil && !ee.ProcessState.Exited() {
		killed = true // terminated by a signal: the CPU limit (SIGXCPU / SIGKILL) or the wall-clock backstop
	}
	secs := time.Since(t0).Seconds()
	text := out.String()
	first := ""
	for _, l := range strings.Split(text, "\n") {
		l = strings.TrimSpace(l)
		if l == "" || strings.HasPrefix(l, "(warning") || strings.Contains(l, "No set-logic") || strings.Contains(l, "will make all theories") || strings.Contains(l, "stricter logic") || strings.Contains(l, "suppress this warning") {
			continue
		}
		first = l
		break
	}
	st := "error"
	switch {
	case first == "unsat":
		st = "unsat"
	case first == "sat":
		st = "sat"
	case first == "unknown":
		st = "unknown"
	case strings.HasPrefix(first, "timeout") || cctx.Err() != nil || strings.Contains(text, "interrupted by timeout") || killed:
		st = "timeout"
	}
	return solveResult{status: st, solver: sp.name, secs: secs, output: text}
}

// coreConfirm: an unsat answer of z3 is confirmed cheaply by letting z3 name an unsat core (a subset of the asserted
// hypotheses plus the negated goal) and asking cvc5 to refute that subset on its own. cvc5 proving the subset
// unsatisfiable is an independent proof of the obligation (any subset of the hypotheses is sound); when z3's answer
// is wrong the "core" is satisfiable as well and cvc5 does not confirm it. Returns the size of the confirmed core.
func coreConfirm(script string, seed int) (bool, int) {
	data, err := os.ReadFile(script)
	if err != nil {
		return false, 0
	}
	lines := strings.Split(string(data), "\n")
	var named []string
	asserts := map[string]string{}
	n := 0
	named = append(named, "(set-option :produce-unsat-cores true)")
	for _, l := range lines {
		switch {
		case strings.HasPrefix(l, "(assert ") && strings.HasSuffix(l, ")"):
			n++
			nm := fmt.Sprintf("hyp!%d", n)
			asserts[nm] = l
			named = append(named, "(assert (! "+l[8:len(l)-1]+" :named "+nm+"))")
		case strings.HasPrefix(l, "(get-") || strings.HasPrefix(l, "(set-logic"):
		case strings.HasPrefix(l, "(check-sat"):
			named = append(named, l, "(get-unsat-core)")
		default:
			named = append(named, l)
		}
	}
	if n == 0 {
		return false, 0
	}
	f1 := strings.TrimSuffix(script, ".smt2") + "-named.smt2"
	os.WriteFile(f1, []byte(strings.Join(named, "\n")), 0o644)
	r := runSolver(context.Background(), solvers[0], f1, 10, seed)
	if r.status != "unsat" {
		return false, 0
	}
	in := map[string]bool{}
	rest := r.output
	if i := strings.Index(rest, "unsat"); i >= 0 {
		rest = rest[i+5:]
	}
	for _, tok := range strings.FieldsFunc(rest, func(c rune) bool { return c == '(' || c == ')' || c == ' ' || c == '\n' || c == '\t' }) {
		if _, ok := asserts[tok]; ok {
			in[tok] = true
		}
	}
	if len(in) == 0 {
		return false, 0
	}
	var core []string
	core = append(core, solvers[1].pre)
	for _, l := range lines {
		if strings.HasPrefix(l, "(get-") || strings.HasPrefix(l, "(set-logic") {
			continue
		}
		if strings.HasPrefix(l, "(assert ") && strings.HasSuffix(l, ")") {
			keep := false
			for nm := range in {
				if asserts[nm] == l {
					keep = true
					break
				}
			}
			if !keep {
				continue
			}
		}
		core = append(core, l)
	}
	f2 := strings.TrimSuffix(script, ".smt2") + "-core-" + solvers[1].name + ".smt2"
	os.WriteFile(f2, []byte(strings.Join(core, "\n")), 0o644)
	r2 := runSolver(context.Background(), solvers[1], f2, 10, seed)
	return r2.status == "unsat", len(in)
}

// Discharge runs the portfolio on one obligation. First definitive answer (unsat/sat) wins. An obligation at a
// point reached over several merged paths is first tried as a whole with the fast stages only, then path by path,
// and only then as a whole with the full portfolio.
func (e *Engine) Discharge(o *Obligation, dir string, idx int, timeoutS int, seed int) {
	if len(o.Parts) == 0 || o.Kind == "cover" || o.Status == "trivial" {
		e.discharge1(o, dir, idx, timeoutS, seed, false)
		return
	}
	e.discharge1(o, dir, idx, timeoutS, seed, true)
	if o.Status == "unsat" || o.Status == "sat" {
		return
	}
	quickTime := o.Time
	// a short run of the whole portfolio on the unsplit obligation (many are decided by cvc5 within seconds)
	if short := 6; timeoutS > short {
		e.discharge1(o, dir, idx, short, seed, false)
		quickTime += o.Time
		if o.Status == "unsat" || o.Status == "sat" {
			o.Time = quickTime
			return
		}
	}
	// second formulation: prove the goal separately on every merged path
	total := 0.0
	solver := ""
	ok := true
	for k, part := range o.Parts {
		sub := &Obligation{Name: fmt.Sprintf("%s/%d", o.Name, k), Kind: o.Kind, Func: o.Func, Goal: part, NFacts: o.NFacts, Gap: o.Gap, PC: o.PC, Ctx: o.Ctx, Src: o.Src}
		if part.IsTrue() {
			continue
		}
		e.discharge1(sub, dir, idx*100+k+50000, timeoutS, seed, false)
		total += sub.Time
		if sub.Status != "unsat" {
			ok = false
			break
		}
		solver = sub.Solver
	}
	if ok {
		o.Status = "unsat"
		o.Solver = solver + " (per-path)"
		o.Time = quickTime + total
		o.Model = ""
		return
	}
	// the verdict (and model) of the unsplit obligation is what gets reported
	e.discharge1(o, dir, idx, timeoutS, seed, false)
	o.Time += quickTime + total
}

func (e *Engine) discharge1(o *Obligation, dir string, idx int, timeoutS int, seed int, fastOnly bool) {
	if o.Status == "trivial" {
		o.Solver = "simplifier"
		return
	}
	coverOnly := o.Kind == "cover"
	if coverOnly && timeoutS > 2 {
		timeoutS = 2
	}
	c := o.Ctx
	tsMu.Lock() // obligations are discharged concurrently; these two steps create terms
	hyps := relevantFactsB(c, o.NFacts, o.Goal, o.Gap, o.PC, o.BasicOnly)
	hyps = append(hyps, preInstantiate(e.ts, hyps, o.Goal)...)
	tsMu.Unlock()
	var gv []*Term
	for _, in := range c.inputs {
		gv = append(gv, in)
	}
	if os.Getenv("GOVC_DEBUG_MODEL") != "" {
		seen := map[int]bool{}
		var walk func(t *Term)
		walk = func(t *Term) {
			if seen[t.id] {
				return
			}
			seen[t.id] = true
			if t.kind == kVar && !t.sort.IsArr() {
				gv = append(gv, t)
			}
			if t.kind == kUF && len(gv) < 400 {
				gv = append(gv, t)
			}
			for _, a := range t.args {
				walk(a)
			}
		}
		walk(o.Goal)
	}
	body := e.ts.Script("", e.tc.Datatypes(), hyps, o.Goal, gv)
	var bodyNP *Script
	file := filepath.Join(dir, fmt.Sprintf("obl-%04d.smt2", idx))
	write := func(sp solverSpec) string {
		f := file
		if sp.pre != "" || sp.noNthPat {
			f = strings.TrimSuffix(file, ".smt2") + "-" + sp.name + ".smt2"
		}
		btxt := body.Text
		if sp.noNthPat {
			if bodyNP == nil {
				b := e.ts.ScriptOpt("", e.tc.Datatypes(), hyps, o.Goal, gv, true)
				bodyNP = &b
			}
			btxt = bodyNP.Text
		}
		txt := "; obligation: " + o.Name + "\n; clause: " + strings.ReplaceAll(o.Src, "\n", " ") + "\n(set-option :produce-models true)\n" + sp.pre + preludeVal + btxt
		os.WriteFile(f, []byte(txt), 0o644)
		return f
	}
	var all []solveResult
	var win *solveResult
	winFile := "" // the reduced script the winning answer was obtained on (shallow / focused stages)
	// stage 1: the fastest solver alone with a short limit (decides the bulk of the obligations)
	{
		quick := 2
		if timeoutS < quick {
			quick = timeoutS
		}
		r := runSolver(context.Background(), solvers[0], write(solvers[0]), quick, seed)
		all = append(all, r)
		if r.status == "unsat" || r.status == "sat" {
			win = &r
		}
	}
	// a vacuity cover that z3 refutes is cross-checked: "unreachable" is only reported when cvc5 does not find the
	// point reachable (z3 5.1.0 was seen to answer unsat on a satisfiable problem over nested sequences)
	if coverOnly && win != nil && win.status == "unsat" {
		r := runSolver(context.Background(), solvers[1], write(solvers[1]), 8, seed)
		all = append(all, r)
		if r.status == "sat" {
			win = &r
		}
	}
	// stage 1b: the same solver on the "shallow" problem: definitional (triggered) facts left out, i.e. every
	// specification / library function uninterpreted. Fewer hypotheses: an unsat answer is as good as any other.
	if win == nil && !coverOnly {
		tsMu.Lock()
		sh := relevantFactsShallow(c, o.NFacts, o.Goal, o.Gap, o.PC)
		sh = append(sh, preInstantiate(e.ts, hyps, o.Goal)...)
		tsMu.Unlock()
		b := e.ts.Script("", e.tc.Datatypes(), sh, o.Goal, nil)
		f := strings.TrimSuffix(file, ".smt2") + "-shallow.smt2"
		os.WriteFile(f, []byte("; obligation: "+o.Name+" (shallow)\n"+preludeVal+b.Text), 0o644)
		r := runSolver(context.Background(), solvers[0], f, 3, seed)
		if r.status == "unsat" {
			r.solver += " (shallow)"
			all = append(all, r)
			win = &r
			winFile = f
		}
	}
	// stage 1c: relevance-filtered hypothesis sets (in the manner of the MePo filter): facts most of whose sub-terms
	// already occur in the goal (or in facts selected before). Large irrelevant fact sets make the solvers give up
	// on goals that need a couple of dozen facts only. Any subset of the hypotheses is sound.
	if win == nil && !coverOnly && len(hyps) > 120 {
		for k, max := range []int{60, 150, 300} {
			thr := 0.3
			sub := mepoFilter(hyps, o.Goal, thr, max)
			if len(sub) == 0 || len(sub) >= len(hyps) {
				continue
			}
			b := e.ts.Script("", e.tc.Datatypes(), sub, o.Goal, nil)
			f := strings.TrimSuffix(file, ".smt2") + fmt.Sprintf("-focus%d.smt2", k)
			os.WriteFile(f, []byte("; obligation: "+o.Name+" (focused hypotheses)\n"+preludeVal+b.Text), 0o644)
			r := runSolver(context.Background(), solvers[0], f, 4, seed)
			if r.status == "unsat" {
				r.solver += " (focused)"
				all = append(all, r)
				win = &r
				winFile = f
				break
			}
		}
	}
	// stage 2: the whole portfolio with the full limit
	if win == nil && !coverOnly && !fastOnly {
		ctx, cancel := context.WithCancel(context.Background())
		defer cancel()
		// the portfolio: every solver configuration, and the two z3 5.1.0 configurations again with other random
		// seeds (some quantified invariant steps are decided by one seed in seconds and by another not at all;
		// the answer must not depend on the seed the caller happens to export)
		type member struct {
			sp   solverSpec
			seed int
		}
		var members []member
		for _, sp := range solvers {
			members = append(members, member{sp, seed})
		}
		members = append(members, member{solvers[3], seed + 1}, member{solvers[3], seed + 2}, member{solvers[0], seed + 1})
		results := make(chan solveResult, len(members))
		var wg sync.WaitGroup
		for _, m := range members {
			m := m
			f := write(m.sp)
			wg.Add(1)
			go func() {
				defer wg.Done()
				r := runSolver(ctx, m.sp, f, timeoutS, m.seed)
				if m.seed != seed {
					r.solver += fmt.Sprintf(" (seed+%d)", m.seed-seed)
				}
				results <- r
			}()
		}
		go func() { wg.Wait(); close(results) }()
		for r := range results {
			r := r
			all = append(all, r)
			if r.status == "unsat" || r.status == "sat" {
				win = &r
				cancel()
				break
			}
		}
	}
	if win == nil {
		// no definitive answer
		o.Status = "unknown"
		var sb strings.Builder
		for _, r := range all {
			fmt.Fprintf(&sb, "[%s %.2fs] %s: %s\n", r.solver, r.secs, r.status, firstLines(r.output, 3))
			if r.status == "timeout" {
				o.Status = "timeout"
			}
			o.Time += r.secs
		}
		o.Output = sb.String()
		o.Solver = "none"
		return
	}
	// z3 5.1.0 was caught answering unsat on satisfiable problems over nested sequences ([][2][]byte): on such a
	// problem a z3 unsat only counts when cvc5 confirms it (every tier)
	// (a sequence of strings is a nested sequence too: String = Seq Char; the third and fourth wrong answers - both z3
	// versions agreeing on the fourth - were on problems with strings.Split results)
	nestedSeq := strings.Contains(body.Text, "(Seq (Seq") || strings.Contains(body.Text, "(Seq String)")
	tConfirm := time.Now()
	defer func() {
		if os.Getenv("GOVC_DEBUG_CONFIRM") != "" && time.Since(tConfirm).Seconds() > 3 {
			fmt.Fprintf(os.Stderr, "confirm %.1fs %s [%s] win=%s\n", time.Since(tConfirm).Seconds(), o.Name, o.CrossChecked, win.solver)
		}
	}()
	// thorough tier: an unsat answer of one solver family is re-checked by the other one on the full problem; a
	// contradicting "sat" is reported as a failed obligation (solver disagreement), never silently accepted
	coreDone := false
	if crossCheck && !coverOnly && win.status == "unsat" && strings.HasPrefix(win.solver, "z3") {
		wf := winFile
		if wf == "" {
			wf = write(solvers[0])
		}
		if ok, k := coreConfirm(wf, seed); ok {
			coreDone = true
			o.CrossChecked = fmt.Sprintf("confirmed by %s on the unsat core named by z3 (%d assertions)", solvers[1].name, k)
		}
	}
	confirmed := coreDone
	if crossCheck && !coverOnly && win.status == "unsat" && !coreDone {
		other := solvers[1] // cvc5
		if strings.HasPrefix(win.solver, "cvc5") {
			other = solvers[0]
		}
		cf := write(other)
		if winFile != "" {
			// the answer came from a reduced problem: the second opinion is asked on the same reduced problem
			if data, err := os.ReadFile(winFile); err == nil {
				cf = strings.TrimSuffix(winFile, ".smt2") + "-" + other.name + ".smt2"
				os.WriteFile(cf, []byte(other.pre+string(data)), 0o644)
			}
		}
		r := runSolver(context.Background(), other, cf, 8, seed)
		switch r.status {
		case "unsat":
			o.CrossChecked = "confirmed by " + other.name
			confirmed = true
		case "sat":
			o.Status = "conflict"
			o.Solver = win.solver + " vs " + other.name
			o.Time = win.secs + r.secs
			o.Output = fmt.Sprintf("SOLVER DISAGREEMENT: %s answered unsat, %s answered sat on the same problem\n[%s %.2fs] %s", win.solver, other.name, other.name, r.secs, firstLines(r.output, 20))
			o.SMTFile = file
			return
		default:
			o.CrossChecked = "not confirmed (" + other.name + ": " + r.status + ")"
			// z3 5.1.0 answered unsat wrongly three times during development while z3 4.8.12 did not: when cvc5 has
			// no answer on a problem without nested sequences, the older z3 is asked as a third opinion
			if strings.HasPrefix(win.solver, "z3-5") && !nestedSeq {
				third := solvers[2]
				tf := write(third)
				if winFile != "" {
					tf = winFile
				}
				r3 := runSolver(context.Background(), third, tf, 8, seed)
				switch r3.status {
				case "unsat":
					o.CrossChecked = "confirmed by " + third.name + " (" + other.name + ": " + r.status + ")"
				case "sat":
					o.Status = "conflict"
					o.Solver = win.solver + " vs " + third.name
					o.Time = win.secs + r.secs + r3.secs
					o.Output = fmt.Sprintf("SOLVER DISAGREEMENT: %s answered unsat, %s answered sat on the same problem\n[%s %.2fs] %s", win.solver, third.name, third.name, r3.secs, firstLines(r3.output, 20))
					o.SMTFile = file
					return
				}
			}
		}
	}
	tryReduced := func() bool {
	// cvc5 is also asked on reduced problems (every subset of the hypotheses is sound for an unsat answer)
	ok := false
	var reduced []string
	{
		tsMu.Lock()
		sh := relevantFactsShallow(c, o.NFacts, o.Goal, o.Gap, o.PC)
		sh = append(sh, preInstantiate(e.ts, hyps, o.Goal)...)
		b := e.ts.Script("", e.tc.Datatypes(), sh, o.Goal, nil)
		tsMu.Unlock()
		f := strings.TrimSuffix(file, ".smt2") + "-shallow-" + solvers[1].name + ".smt2"
		os.WriteFile(f, []byte("; obligation: "+o.Name+" (shallow)\n"+solvers[1].pre+preludeVal+b.Text), 0o644)
		reduced = append(reduced, f)
	}
	if len(hyps) > 40 {
		for k, max := range []int{40, 100, 250} {
			tsMu.Lock()
			sub := mepoFilter(hyps, o.Goal, 0.3, max)
			var txt string
			if len(sub) > 0 && len(sub) < len(hyps) {
				txt = e.ts.Script("", e.tc.Datatypes(), sub, o.Goal, nil).Text
			}
			tsMu.Unlock()
			if txt == "" {
				continue
			}
			f := strings.TrimSuffix(file, ".smt2") + fmt.Sprintf("-focus%d-%s.smt2", k, solvers[1].name)
			os.WriteFile(f, []byte("; obligation: "+o.Name+" (focused hypotheses)\n"+solvers[1].pre+preludeVal+txt), 0o644)
			reduced = append(reduced, f)
		}
	}
	lim := timeoutS
	if lim > 10 {
		lim = 10
	}
	for _, f := range reduced {
		rr := runSolver(context.Background(), solvers[1], f, lim, seed)
		if rr.status == "unsat" {
			ok = true
			o.CrossChecked = "confirmed by " + solvers[1].name + " (reduced problem)"
			break
		}
	}
		return ok
	}
	if !confirmed && !coreDone && !coverOnly && win.status == "unsat" && strings.HasPrefix(win.solver, "z3") && nestedSeq && tryReduced() {
		confirmed = true
	}
	if !confirmed && !coreDone && !coverOnly && win.status == "unsat" && strings.HasPrefix(win.solver, "z3") && nestedSeq {
		cf := write(solvers[1])
		if winFile != "" {
			// the answer came from a reduced problem: cvc5 is asked on the same reduced problem first
			if data, err := os.ReadFile(winFile); err == nil {
				cf = strings.TrimSuffix(winFile, ".smt2") + "-" + solvers[1].name + ".smt2"
				os.WriteFile(cf, []byte(solvers[1].pre+string(data)), 0o644)
			}
		}
		nlim := 3 * timeoutS // cvc5 needs 20-30 s on some of these
		r := runSolver(context.Background(), solvers[1], cf, nlim, seed)
		all = append(all, r)
		switch r.status {
		case "unsat":
			o.CrossChecked = "confirmed by " + solvers[1].name
		case "sat":
			o.Status = "conflict"
			o.Solver = win.solver + " vs " + solvers[1].name
			o.Time = win.secs + r.secs
			o.Output = fmt.Sprintf("SOLVER DISAGREEMENT: %s answered unsat, %s answered sat on the same problem (nested sequences)\n[%s %.2fs] %s", win.solver, solvers[1].name, solvers[1].name, r.secs, firstLines(r.output, 20))
			o.SMTFile = file
			return
		default:
			// no second opinion within the limit: the z3 answer stands (recorded as not confirmed)
			o.CrossChecked = "not confirmed (cvc5-1.0: " + r.status + ", nested sequences)"
			if os.Getenv("GOVC_LAX_NESTED") == "" {
				o.Status = "unknown"
				o.Solver = "none"
				o.Time = win.secs + r.secs
				o.Output = fmt.Sprintf("z3 answered unsat on a problem with nested sequences and cvc5 gave no answer (%s) - not accepted\n", r.status)
				o.SMTFile = file
				return
			}
		}
	}
	o.Status = win.status
	o.Solver = win.solver
	o.Time = win.secs
	if win.status == "sat" {
		o.Model = win.output
	}
	n := 40
	if os.Getenv("GOVC_DEBUG_MODEL") != "" {
		n = 400
	}
	o.Output = fmt.Sprintf("[%s %.2fs] %s", win.solver, win.secs, firstLines(win.output, n))
	o.SMTFile = file
}

func firstLines(s string, n int) string {
	ls := strings.Split(strings.TrimSpace(s), "\n")
	if len(ls) > n {
		ls = ls[:n]
	}
	return strings.Join(ls, "\n")
}

// relevantFacts keeps untriggered facts and those triggered facts whose trigger term occurs in the goal or in a kept fact.
func relevantFacts(c *FnCtx, n int, goal *Term, gap [2]int, pc *Term) []*Term {
	return relevantFactsB(c, n, goal, gap, pc, false)
}

func relevantFactsB(c *FnCtx, n int, goal *Term, gap [2]int, pc *Term, basicOnly bool) []*Term {
	facts, trigs := c.facts[:n], c.triggers[:n]
	// literals whose truth contradicts the obligation's path condition
	contra := map[int]bool{}
	if pc != nil {
		for _, l := range conjuncts(pc) {
			contra[c.eng.ts.Not(l).id] = true
		}
	}
	excl := make([]bool, n)
	if len(contra) > 0 {
		memo := map[int]bool{}
		for i := 0; i < n && i < len(c.factPC); i++ {
			g := c.factPC[i]
			if g == nil || g.IsTrue() {
				continue
			}
			v, ok := memo[g.id]
			if !ok {
				for _, l := range conjuncts(g) {
					if contra[l.id] {
						v = true
						break
					}
				}
				memo[g.id] = v
			}
			excl[i] = v
		}
	}
	skip := func(i int) bool {
		if basicOnly && i < len(c.factTag) && c.factTag[i] != 0 {
			return true
		}
		return excl[i] || (i >= gap[0] && i < gap[1] && i < len(c.factGuarded) && c.factGuarded[i])
	}
	reach := map[int]bool{}
	nthOf := map[int]bool{} // sequences some element of which is mentioned by the goal (or by a fact pulled in for the goal)
	var mark func(t *Term, nth bool)
	mark = func(t *Term, nth bool) {
		if reach[t.id] && !(nth && t.kind == kApp && t.op == "seq.nth") {
			return
		}
		reach[t.id] = true
		if nth && t.kind == kApp && t.op == "seq.nth" {
			nthOf[t.args[0].id] = true
		}
		for _, a := range t.args {
			mark(a, nth)
		}
	}
	var markNth func(t *Term, seen map[int]bool)
	markNth = func(t *Term, seen map[int]bool) {
		if seen[t.id] {
			return
		}
		seen[t.id] = true
		if t.kind == kApp && t.op == "seq.nth" {
			nthOf[t.args[0].id] = true
		}
		for _, a := range t.args {
			markNth(a, seen)
		}
	}
	markNth(goal, map[int]bool{})
	mark(goal, false)
	keep := make([]bool, len(facts))
	// unguarded, untriggered facts (facts about inputs and package variables, the package invariant, ...) are only
	// used when they share a constant symbol with something already relevant (cone of influence)
	var loose []int
	for i, f := range facts {
		if trigs[i] == nil && !skip(i) {
			if i < len(c.factGuarded) && !c.factGuarded[i] && f.kind != kQuant {
				loose = append(loose, i)
				continue
			}
			keep[i] = true
			mark(f, false)
		}
	}
	for changed := true; changed; {
		changed = false
		for _, i := range loose {
			if keep[i] {
				continue
			}
			ss := c.looseSyms(i)
			hit := len(ss) == 0
			for _, id := range ss {
				if reach[id] {
					hit = true
					break
				}
			}
			if hit {
				keep[i] = true
				mark(facts[i], false)
				changed = true
			}
		}
		for i, f := range facts {
			if keep[i] || skip(i) || trigs[i] == nil {
				continue
			}
			ok := reach[trigs[i].id]
			if c.trigNth[i] {
				ok = nthOf[trigs[i].id]
			}
			if ok {
				keep[i] = true
				mark(f, false)
				if c.trigNth[i] {
					markNth(f, map[int]bool{})
				}
				changed = true
			}
		}
	}
	seenFact := map[int]bool{}
	var out []*Term
	for i, f := range facts {
		if keep[i] && !seenFact[f.id] {
			seenFact[f.id] = true
			out = append(out, f)
		}
	}
	return out
}


// preInstantiate: instances of universally quantified hypotheses at the sequence positions the goal talks about.
// z3 rewrites seq.nth internally, so its E-matching never fires on a trigger (seq.nth S ?i); for every hypothesis
// containing, at a positive position,  forall i. body  whose trigger is (seq.nth S i), and every ground term
// (seq.nth S t) of the goal (or of an instance already made), the instance body[t/i] is added - a consequence of
// the hypothesis, hence sound.
func preInstantiate(ts *TermStore, hyps []*Term, goal *Term) []*Term {
	type key struct{ seq, idx int }
	ground := map[key]*Term{} // (sequence, index) -> index term
	var order []key
	var collect func(t *Term, seen map[int]bool)
	collect = func(t *Term, seen map[int]bool) {
		if seen[t.id] {
			return
		}
		seen[t.id] = true
		if t.kind == kQuant {
			return
		}
		if t.kind == kApp && t.op == "seq.nth" && t.args[1].kind != kBound {
			k := key{t.args[0].id, t.args[1].id}
			if _, ok := ground[k]; !ok {
				ground[k] = t.args[1]
				order = append(order, k)
			}
		}
		for _, a := range t.args {
			collect(a, seen)
		}
	}
	var out []*Term
	done := map[[2]int]bool{}
	// positive-position universal quantifiers of a hypothesis
	var quantsV func(t *Term, pos bool, acc *[]*Term, vis map[[2]int]bool)
	quants := func(t *Term, pos bool, acc *[]*Term) { quantsV(t, pos, acc, map[[2]int]bool{}) }
	quantsV = func(t *Term, pos bool, acc *[]*Term, vis map[[2]int]bool) {
		k := [2]int{t.id, 0}
		if pos {
			k[1] = 1
		}
		if vis[k] || t.sort != SBool {
			return
		}
		vis[k] = true
		quants := func(t *Term, pos bool, acc *[]*Term) { quantsV(t, pos, acc, vis) }
		switch {
		case t.kind == kQuant:
			if t.op == "forall" && pos {
				*acc = append(*acc, t)
			}
		case t.kind == kApp && t.op == "not" && len(t.args) == 1:
			quants(t.args[0], !pos, acc)
		case t.kind == kApp && t.op == "=>" && len(t.args) == 2:
			quants(t.args[0], !pos, acc)
			quants(t.args[1], pos, acc)
		case t.kind == kApp && (t.op == "and" || t.op == "or"):
			for _, a := range t.args {
				quants(a, pos, acc)
			}
		}
	}
	// nothing to do unless some hypothesis holds a universal quantifier at a positive position
	anyQ := false
	for _, h := range hyps {
		var qs []*Term
		quants(h, true, &qs)
		if len(qs) > 0 {
			anyQ = true
			break
		}
	}
	if !anyQ {
		return nil
	}
	collect(goal, map[int]bool{})
	for round := 0; round < 4; round++ {
		pass := round % 2
		n0 := len(order)
		for _, h := range append(append([]*Term{}, hyps...), out...) {
			var qs []*Term
			quants(h, true, &qs)
			for _, q := range qs {
				bv, body := q.args[0], q.args[1]
				if bv.sort != SInt {
					continue
				}
				for _, p := range ts.patterns(bv, body, false) {
					if !(p.kind == kApp && p.op == "seq.nth" && p.args[1] == bv) || len(ts.FreeBoundVars(p.args[0])) > 0 {
						continue
					}
					for _, k := range order {
						// first the positions the goal uses on this very sequence; in a second pass (pass == 1) any
						// index term the goal uses, whatever sequence it indexes there: lemmas about related sequences
						// (a prefix kept by a call, the list before the loop) are needed at the same index
						if ((pass == 0 || noAnyIdx) && k.seq != p.args[0].id) || done[[2]int{q.id, k.idx}] {
							continue
						}
						done[[2]int{q.id, k.idx}] = true
						inst := ts.Subst(body, bv, ground[k])
						nh := replacePositive(ts, h, q, inst, true, map[[2]int]*Term{})
						// an existential the instance asserts (the witness of "every element of the sorted list is one
						// of the old elements", ...) gets a name, so that the next round can instantiate at it
						if os.Getenv("GOVC_NOHSK") == "" {
							nh = ts.Not(ts.Skolemize(ts.Not(nh)))
						}
						out = append(out, nh)
						collect(nh, map[int]bool{})
						if len(out) >= 150 {
							return out
						}
					}
				}
			}
		}
		if len(order) == n0 && pass == 1 {
			break
		}
	}
	return out
}

// replacePositive replaces the occurrences of quantifier q that sit at positive positions of t (reached through
// and / or / not / => only) by inst; any other occurrence is left alone.
func replacePositive(ts *TermStore, t, q, inst *Term, pos bool, memo map[[2]int]*Term) *Term {
	k := [2]int{t.id, 0}
	if pos {
		k[1] = 1
	}
	if r, ok := memo[k]; ok {
		return r
	}
	r := replacePositive1(ts, t, q, inst, pos, memo)
	memo[k] = r
	return r
}

func replacePositive1(ts *TermStore, t, q, inst *Term, pos bool, memo map[[2]int]*Term) *Term {
	switch {
	case t == q:
		if pos {
			return inst
		}
		return t
	case t.kind == kApp && t.op == "not" && len(t.args) == 1:
		in := replacePositive(ts, t.args[0], q, inst, !pos, memo)
		if in == t.args[0] {
			return t
		}
		return ts.Not(in)
	case t.kind == kApp && t.op == "=>" && len(t.args) == 2:
		a, b := replacePositive(ts, t.args[0], q, inst, !pos, memo), replacePositive(ts, t.args[1], q, inst, pos, memo)
		if a == t.args[0] && b == t.args[1] {
			return t
		}
		return ts.mk(kApp, "=>", SBool, a, b)
	case t.kind == kApp && (t.op == "and" || t.op == "or"):
		na := make([]*Term, len(t.args))
		same := true
		for i, a := range t.args {
			na[i] = replacePositive(ts, a, q, inst, pos, memo)
			same = same && na[i] == a
		}
		if same {
			return t
		}
		return ts.mk(kApp, t.op, SBool, na...)
	}
	return t
}

// relevantFactsShallow: only the facts that are not definitional lemmas about an application (untriggered facts).
func relevantFactsShallow(c *FnCtx, n int, goal *Term, gap [2]int, pc *Term) []*Term {
	full := relevantFacts(c, n, goal, gap, pc)
	inFull := map[int]bool{}
	for _, f := range full {
		inFull[f.id] = true
	}
	// terms of the goal itself
	reach := map[int]bool{}
	var mark func(t *Term)
	mark = func(t *Term) {
		if reach[t.id] {
			return
		}
		reach[t.id] = true
		for _, a := range t.args {
			mark(a)
		}
	}
	mark(goal)
	var out []*Term
	for i := 0; i < n; i++ {
		f := c.facts[i]
		if !inFull[f.id] {
			continue
		}
		if c.triggers[i] == nil || (reach[c.triggers[i].id] && !c.trigNth[i] && f.kind != kQuant) {
			out = append(out, f)
		}
	}
	return out
}

// conjuncts: the literals of a conjunction (nested "and" flattened).
func conjuncts(t *Term) []*Term {
	var out []*Term
	var walk func(t *Term)
	walk = func(t *Term) {
		if t.kind == kApp && t.op == "and" {
			for _, a := range t.args {
				walk(a)
			}
			return
		}
		out = append(out, t)
	}
	walk(t)
	return out
}

// mepoFilter selects the hypotheses that are relevant to the goal by shared sub-terms: a fact is taken when at least
// the fraction thr of its (non-literal) sub-terms is already relevant; its sub-terms then become relevant too.
func mepoFilter(hyps []*Term, goal *Term, thr float64, max int) []*Term {
	subs := func(t *Term) []int {
		seen := map[int]bool{}
		var out []int
		var walk func(t *Term)
		walk = func(t *Term) {
			if seen[t.id] {
				return
			}
			seen[t.id] = true
			if t.kind != kLit && t.sort != SBool {
				out = append(out, t.id)
			}
			for _, a := range t.args {
				walk(a)
			}
		}
		walk(t)
		return out
	}
	rel := map[int]bool{}
	for _, id := range subs(goal) {
		rel[id] = true
	}
	fs := make([][]int, len(hyps))
	for i, h := range hyps {
		fs[i] = subs(h)
	}
	sel := make([]bool, len(hyps))
	n := 0
	for n < max {
		// the best-scoring 30 facts of this round
		type cand struct {
			i     int
			score float64
		}
		var cs []cand
		for i := range hyps {
			if sel[i] {
				continue
			}
			if len(fs[i]) == 0 {
				cs = append(cs, cand{i, 1})
				continue
			}
			hit := 0
			for _, id := range fs[i] {
				if rel[id] {
					hit++
				}
			}
			if sc := float64(hit) / float64(len(fs[i])); sc >= thr {
				cs = append(cs, cand{i, sc})
			}
		}
		if len(cs) == 0 {
			break
		}
		sort.SliceStable(cs, func(a, b int) bool { return cs[a].score > cs[b].score })
		if len(cs) > 30 {
			cs = cs[:30]
		}
		for _, c := range cs {
			sel[c.i] = true
			n++
			for _, id := range fs[c.i] {
				rel[id] = true
			}
		}
	}
	var out []*Term
	for i, h := range hyps {
		if sel[i] {
			out = append(out, h)
		}
	}
	return out
}

// termSyms: ids of the constant symbols (kVar) occurring in t.
func termSyms(t *Term) []int {
	acc := map[int]bool{}
	seen := map[int]bool{}
	var walk func(t *Term)
	walk = func(t *Term) {
		if seen[t.id] {
			return
		}
		seen[t.id] = true
		if t.kind == kVar {
			acc[t.id] = true
			return
		}
		for _, a := range t.args {
			walk(a)
		}
	}
	walk(t)
	out := make([]int, 0, len(acc))
	for id := range acc {
		out = append(out, id)
	}
	return out
}

// looseSyms: the constant symbols of fact i (cached per function).
func (c *FnCtx) looseSyms(i int) []int {
	if c.symCache == nil {
		c.symCache = map[int][]int{}
	}
	if v, ok := c.symCache[i]; ok {
		return v
	}
	v := termSyms(c.facts[i])
	c.symCache[i] = v
	return v
}
