package main

import (
	"fmt"
	"go/token"
	"go/types"
	"sort"

	"golang.org/x/tools/go/ssa"
)

// SymVal is the symbolic value of an SSA register:
//   *Term      scalar / object id / sequence / struct / Val
//   Tuple      multi-value
//   *PtrVal    pointer with a meta-level path (address of a local cell, of a field, of an element)
//   *IterVal   map/string range iterator
//   *FuncVal   statically known function value (closure or function)
type SymVal interface{}

type Tuple []SymVal

type Sel struct {
	isIdx bool
	field int
	idx   *Term
	typ   types.Type // type of the container being selected from
}

type PtrVal struct {
	cell *Cell  // root is a cell (local or global) ...
	obj  *Term  // ... or a heap object id
	root types.Type // type of the root object (pointee of the root pointer)
	path []Sel
}

type Cell struct {
	name   string
	typ    types.Type
	global *ssa.Global
	init   *Term // value when never assigned (globals: symbolic entry value)
	id     int
	ghostSort Sort // ghost cells: SMT sort (typ is nil)
	detached bool // holds a copy of a slice value whose variable is unknown: stores are outside the subset
}

type IterVal struct {
	isMap  bool
	mapTyp types.Type
	m      *Term // map object id
	str    *Term
	pos    *Cell // string iteration position
	n      int   // Next counter
	count  *Cell // ghost: number of entries delivered so far (map iteration)
	dom0   *Term // domain and length of the map when the iteration started
	len0   *Term
	visited *Cell // ghost: set of keys delivered so far
}

type FuncVal struct {
	fn       *ssa.Function
	bindings []SymVal
}

type State struct {
	pc    *Term
	cells map[*Cell]*Term
	heaps map[string]*Term
	wm    *Term // allocation watermark: every existing object id is < wm
}

func (s *State) clone() *State {
	n := &State{pc: s.pc, wm: s.wm, cells: make(map[*Cell]*Term, len(s.cells)), heaps: make(map[string]*Term, len(s.heaps))}
	for k, v := range s.cells {
		n.cells[k] = v
	}
	for k, v := range s.heaps {
		n.heaps[k] = v
	}
	return n
}

type Obligation struct {
	Name   string
	Kind   string
	Func   string
	Props  []string
	Goal   *Term
	NFacts int
	BasicOnly    bool   // use only facts of origin 0 (code and library models)
	CrossChecked string // thorough tier: outcome of the second opinion
	PC     *Term  // path condition of the point the obligation belongs to (facts guarded by a contradicting path condition are not used)
	Gap    [2]int // path-guarded facts with index in [Gap[0], Gap[1]) belong to code executed after this point was reached: not used
	Pos    token.Position
	Src    string
	Ctx    *FnCtx
	// result
	Status  string // unsat sat unknown timeout error trivial
	Solver  string
	Time    float64
	Model   string
	Output  string
	Bounded bool
	SMTFile string
	Parts   []*Term // alternative formulation: the goal split per merged path (all parts must be proved)
}

// FnCtx: verification of one top-level function (shared by inlined activations).
type FnCtx struct {
	eng      *Engine
	top      *ssa.Function
	fc       *FuncContract
	facts    []*Term
	triggers []*Term
	factTag     []byte // origin of fact i: 0 code / library model, 1 assumed contract clause (invariant, requires), 2 specification lemma or unfolding
	curTag      byte
	curTopFrame *Frame       // frame of the function under verification
	rawDerived  map[int]bool // C05: texts computed from Map values by functions other than escapeChars
	escaped     map[int]bool // C05: terms returned by escapeChars
	qdepth      int // nesting depth of contract quantifiers being evaluated (names their bound variables)
	backCovers  []*Obligation // vacuity guards for loop back edges
	factGuarded []bool // fact i is guarded by the path condition of the point it was generated at
	factPC      []*Term // that path condition (nil: none)
	symCache    map[int][]int // fact index -> constant symbols (unguarded facts only; see relevantFacts)
	gap      [2]int    // while a return point is being checked: facts generated after that point was reached (indices)
	trigNth  map[int]bool // fact index -> trigger is 'some element of the trigger sequence is mentioned'
	obls     []*Obligation
	kindOrd  map[string]int
	writeLog *writeLog
	depth    int
	trusted  map[string]bool
	inputs   []*Term // symbolic inputs for model extraction
	inputDoc []string
	cellSeq  int
	noObl    int // >0: suppress obligations (ghost evaluation / dry run)
	stack    []*ssa.Function
	unsupported []string
	entryFacts int
	entryWM    *Term
	specDepth  map[*ssa.Function]int
	specSeen   map[string]bool
	lastNext   *nextInfo
	layers     map[int]*layerInfo
	layerInst  map[[2]int]bool
	curFrame   *Frame
	pendingBindings []SymVal
	mapReads    []mapRead
	ptrReads    []ptrRead
	globalReads []*Cell
	globalSeen  map[*Cell]bool
	globalTyped map[*Cell]bool
	curPos      token.Pos
	entryMeasure *Term
	retCovers    []*Obligation
	curBinOp     *ssa.BinOp
	blockStack   []blockRef
	freshBase    *Term
	oldState     *State // pre-state for two-state postcondition predicates
	curLatch     string
	isGhostTop   int
	curState     *State
	loopAssume   []loopAssumption
}

type blockRef struct {
	fr *Frame
	b  *ssa.BasicBlock
}

// loopAssumption: the havoc at loop head `head` assumed that stores to `heap` inside the loop only hit objects
// allocated after loop entry (id >= wm) or the listed loop-invariant objects; checked at every store in the body.
type loopAssumption struct {
	fr     *Frame
	head   *ssa.BasicBlock
	heap   string
	wm     *Term
	except []*Term
}

type writeLog struct {
	cells map[*Cell]bool
	heaps map[string][]*Term // heap -> object ids written (nil entry = whole heap)
	whole map[string]bool
	wm    bool
	alloc map[int]bool // object ids allocated while logging
}

func newWriteLog() *writeLog {
	return &writeLog{cells: map[*Cell]bool{}, heaps: map[string][]*Term{}, whole: map[string]bool{}, alloc: map[int]bool{}}
}

func (c *FnCtx) addFact(st *State, f *Term) {
	ts := c.eng.ts
	g := ts.Implies(st.pc, f)
	if g.IsTrue() {
		return
	}
	c.facts = append(c.facts, c.closeFact(g))
	c.triggers = append(c.triggers, nil)
	c.factGuarded = append(c.factGuarded, !st.pc.IsTrue())
	c.factPC = append(c.factPC, st.pc)
	c.factTag = append(c.factTag, c.curTag)
}

// closeFact universally closes a fact over bound variables that occur free in it (facts generated while a
// quantifier body is being evaluated hold for every value of the bound variable).
func (c *FnCtx) closeFact(g *Term) *Term {
	ts := c.eng.ts
	for _, bv := range ts.FreeBoundVars(g) {
		g = ts.Quant("forall", bv, g)
	}
	return g
}

// addFactT adds a fact that only matters when term trig occurs in the goal or in another relevant fact
// (definitional facts about an uninterpreted application or a fresh symbol). Dropping hypotheses is sound.
func (c *FnCtx) addFactT(st *State, trig, f *Term) {
	ts := c.eng.ts
	g := ts.Implies(st.pc, f)
	if g.IsTrue() {
		return
	}
	if len(c.eng.ts.FreeBoundVars(trig)) > 0 {
		trig = nil
	}
	c.facts = append(c.facts, c.closeFact(g))
	c.triggers = append(c.triggers, trig)
	c.factGuarded = append(c.factGuarded, !st.pc.IsTrue())
	c.factPC = append(c.factPC, st.pc)
	c.factTag = append(c.factTag, c.curTag)
}

func (c *FnCtx) addObl(st *State, kind, anchor string, goal *Term, pos token.Pos, src string) {
	if c.noObl > 0 {
		return
	}
	o := c.addObl1(st, kind, anchor, goal, pos, src)
	// a postcondition / invariant at a point reached over several merged paths may alternatively be proved path by path
	if o != nil && o.Status != "trivial" && kind != "cover" {
		ts := c.eng.ts
		switch {
		case st.pc.kind == kApp && st.pc.op == "or" && len(st.pc.args) <= 8:
			for _, d := range st.pc.args {
				o.Parts = append(o.Parts, ts.Skolemize(ts.Implies(d, goal)))
			}
		case st.pc.kind == kApp && st.pc.op == "and":
			// case split on the widest disjunction among the conjuncts of the path condition
			var best *Term
			for _, cj := range st.pc.args {
				if cj.kind == kApp && cj.op == "or" && len(cj.args) >= 2 && len(cj.args) <= 8 && (best == nil || len(cj.args) > len(best.args)) {
					best = cj
				}
			}
			if best != nil {
				for _, d := range best.args {
					o.Parts = append(o.Parts, ts.Skolemize(ts.Implies(ts.And(st.pc, d), goal)))
				}
			}
		}
	}
}

func (c *FnCtx) addObl1(st *State, kind, anchor string, goal *Term, pos token.Pos, src string) *Obligation {
	ts := c.eng.ts
	if c.ghostTop() {
		// a specification function is a total mathematical function: only its contract (post, variant, pre of
		// callees) is proved; run-time safety of its executable rendering is not a proof obligation
		switch kind {
		case "post", "pre", "variant", "inv-init", "inv-step", "lemma":
		default:
			return nil
		}
	}
	g := ts.Skolemize(ts.Implies(st.pc, goal))
	c.kindOrd[kind]++
	fname := c.top.RelString(c.top.Pkg.Pkg)
	name := fmt.Sprintf("%s:%s:%s", fname, kind, anchor)
	o := &Obligation{Name: name, Kind: kind, Func: fname, Goal: g, NFacts: len(c.facts), Gap: c.gap, PC: st.pc, Src: src, Ctx: c}
	if pos.IsValid() {
		o.Pos = c.eng.ld.Fset.Position(pos)
	}
	if c.fc != nil {
		o.Props = c.fc.Props
	}
	if g.IsTrue() {
		o.Status = "trivial"
	}
	c.obls = append(c.obls, o)
	return o
}

// addFactNth adds a lemma about the elements of sequence seq; it is only used for obligations that mention
// some element (seq.nth seq _) of it.
func (c *FnCtx) addFactNth(st *State, seq, f *Term) {
	n := len(c.facts)
	c.addFactT(st, seq, f)
	if len(c.facts) > n {
		if c.trigNth == nil {
			c.trigNth = map[int]bool{}
		}
		c.trigNth[n] = true
	}
}

// assumeChecked: a condition that has just been emitted as an obligation may be assumed afterwards.
// When obligations are suppressed (ghost evaluation) nothing justifies the assumption, so it is not made.
func (c *FnCtx) assumeChecked(st *State, f *Term) {
	if c.noObl > 0 || c.ghostTop() {
		return
	}
	c.addFact(st, f)
}

func (c *FnCtx) ghostTop() bool {
	if c.isGhostTop == 0 {
		c.isGhostTop = 1
		if c.eng.isGhostFn(c.top) {
			c.isGhostTop = 2
		}
	}
	return c.isGhostTop == 2
}

// ---- state accessors ----

func (c *FnCtx) getCell(st *State, cell *Cell) *Term {
	if cell.global != nil && c.noObl == 0 {
		if c.globalSeen == nil {
			c.globalSeen = map[*Cell]bool{}
		}
		if !c.globalSeen[cell] {
			c.globalSeen[cell] = true
			c.globalReads = append(c.globalReads, cell)
		}
		if cell.init != nil && !c.globalTyped[cell] {
			if c.globalTyped == nil {
				c.globalTyped = map[*Cell]bool{}
			}
			c.globalTyped[cell] = true
			// representation invariants of the variable's entry value (pointers/functions are allocated objects, ...)
			c.typeFacts(&State{pc: c.eng.ts.Bool(true), wm: c.eng.ts.Named("wm!entry", SInt)}, cell.init, cell.typ)
			if cell.global.Pkg != nil && cell.global.Pkg.Pkg != c.eng.ld.Pkg && types.TypeString(cell.typ, nil) == "error" {
				// sentinel errors of other packages (io.EOF, io.ErrNoProgress, ...) are non-nil and never reassigned
				c.facts = append(c.facts, c.eng.ts.Not(c.eng.tc.IsNilVal(cell.init)))
				c.triggers = append(c.triggers, nil)
				c.factGuarded = append(c.factGuarded, false)
				c.factPC = append(c.factPC, nil)
				c.factTag = append(c.factTag, c.curTag)
			}
		}
	}
	if v, ok := st.cells[cell]; ok {
		return v
	}
	if cell.init != nil {
		return cell.init
	}
	if cell.typ == nil {
		unsupported("ghost cell %s read before initialisation", cell.name)
	}
	return c.eng.tc.Zero(cell.typ)
}

func (c *FnCtx) setCell(st *State, cell *Cell, v *Term) {
	st.cells[cell] = v
	if c.writeLog != nil {
		c.writeLog.cells[cell] = true
	}
}

func (c *FnCtx) heap(st *State, name string, sort Sort) *Term {
	if h, ok := st.heaps[name]; ok {
		return h
	}
	h := c.eng.ts.Named("H!"+name, sort)
	return h
}

func (c *FnCtx) setHeapAt(st *State, name string, sort Sort, obj, v *Term) {
	if c.noObl == 0 {
		ts := c.eng.ts
		for _, la := range c.loopAssume {
			if la.heap != name {
				continue
			}
			inside := false
			for _, br := range c.blockStack {
				if br.fr == la.fr && la.fr.loops.body[la.head][br.b] {
					inside = true
				}
			}
			if !inside {
				continue
			}
			alts := []*Term{ts.Ge(obj, la.wm), ts.Eq(obj, ts.Int(0))}
			for _, e := range la.except {
				alts = append(alts, ts.Eq(obj, e))
			}
			c.addObl(st, "loop-frame", fmt.Sprintf("#%d %s", c.kindOrd["loop-frame"], name), ts.Or(alts...), token.NoPos, "store to "+name+" inside a loop must hit an object allocated during the loop or a loop-invariant object")
		}
	}
	h := c.heap(st, name, sort)
	st.heaps[name] = c.eng.ts.Store(h, obj, v)
	if c.writeLog != nil {
		c.writeLog.heaps[name] = append(c.writeLog.heaps[name], obj)
	}
}

func (c *FnCtx) setHeapWhole(st *State, name string, h *Term) {
	st.heaps[name] = h
	if c.writeLog != nil {
		c.writeLog.whole[name] = true
	}
}

func (c *FnCtx) heapSort(name string) Sort {
	return c.eng.heapSorts[name]
}

// merge joins states arriving over mutually exclusive edges.
func (c *FnCtx) merge(ins []*State) *State {
	ts := c.eng.ts
	if len(ins) == 1 {
		return ins[0].clone()
	}
	out := &State{cells: map[*Cell]*Term{}, heaps: map[string]*Term{}}
	var pcs []*Term
	for _, s := range ins {
		pcs = append(pcs, s.pc)
	}
	out.pc = ts.Or(pcs...)
	pick := func(get func(s *State) (*Term, bool)) *Term {
		var r *Term
		for i := len(ins) - 1; i >= 0; i-- {
			v, ok := get(ins[i])
			if !ok {
				continue
			}
			if r == nil {
				r = v
			} else {
				r = ts.Ite(ins[i].pc, v, r)
			}
		}
		return r
	}
	cellKeys := map[*Cell]bool{}
	for _, s := range ins {
		for k := range s.cells {
			cellKeys[k] = true
		}
	}
	var cks []*Cell
	for k := range cellKeys {
		cks = append(cks, k)
	}
	sort.Slice(cks, func(i, j int) bool { return cks[i].id < cks[j].id })
	for _, k := range cks {
		k := k
		// a cell absent from a predecessor state: global -> its init value; local -> dead on that path
		out.cells[k] = pick(func(s *State) (*Term, bool) {
			v, ok := s.cells[k]
			if !ok && k.init != nil {
				return k.init, true
			}
			return v, ok
		})
	}
	heapKeys := map[string]bool{}
	for _, s := range ins {
		for k := range s.heaps {
			heapKeys[k] = true
		}
	}
	var hks []string
	for k := range heapKeys {
		hks = append(hks, k)
	}
	sort.Strings(hks)
	for _, k := range hks {
		k := k
		out.heaps[k] = pick(func(s *State) (*Term, bool) {
			v, ok := s.heaps[k]
			if !ok {
				return c.heap(s, k, c.heapSort(k)), true
			}
			return v, ok
		})
	}
	out.wm = pick(func(s *State) (*Term, bool) { return s.wm, true })
	return out
}

// ---- layered heaps: a havocked heap that is known to agree with an older heap below a watermark ----

type layerInfo struct {
	wm     *Term   // objects with id < wm ...
	old    *Term   // ... have the same content as in this heap
	except []*Term // ... except these objects
	fresh  bool    // wm is the watermark at entry of the verified function ("havoc fresh-maps")
}

func (c *FnCtx) hget(st *State, name string, sort Sort, obj *Term) *Term {
	h := c.heap(st, name, sort)
	c.frameFacts(h, obj)
	v := c.eng.ts.Select(h, obj)
	if c.noObl == 0 && (name[0] == 'P' || name[0] == 'F') && len(c.ptrReads) < 400 {
		c.ptrReads = append(c.ptrReads, ptrRead{heap: name, obj: obj, val: v})
	}
	return v
}

func (c *FnCtx) gget(st *State, name string, obj *Term) *Term {
	return c.hget(st, name, ghostHeapSort(name), obj)
}

// frameFacts instantiates, for a read of heap term h at idx, the agreement of every layered base symbol
// under h with its older heap (quantifier-free instance of the frame axiom).
func (c *FnCtx) frameFacts(h, idx *Term) {
	if len(c.layers) == 0 {
		return
	}
	ts := c.eng.ts
	seen := map[int]bool{}
	var walk func(t *Term)
	walk = func(t *Term) {
		if seen[t.id] {
			return
		}
		seen[t.id] = true
		if t.kind == kApp && t.op == "store" {
			walk(t.args[0])
			return
		}
		if t.kind == kApp && t.op == "ite" {
			walk(t.args[1])
			walk(t.args[2])
			return
		}
		if li, ok := c.layers[t.id]; ok {
			key := [2]int{t.id, idx.id}
			if !c.layerInst[key] {
				c.layerInst[key] = true
				conds := []*Term{ts.Lt(idx, li.wm)}
				for _, e := range li.except {
					conds = append(conds, ts.Not(ts.Eq(idx, e)))
				}
				f := ts.Implies(ts.And(conds...), ts.Eq(ts.Select(t, idx), ts.Select(li.old, idx)))
				c.facts = append(c.facts, c.closeFact(f))
				c.triggers = append(c.triggers, nil)
				c.factGuarded = append(c.factGuarded, false)
				c.factPC = append(c.factPC, nil)
				c.factTag = append(c.factTag, c.curTag)
			}
			walk(li.old)
		}
	}
	walk(h)
}
