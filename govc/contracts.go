package main

// Contract comments (//@ ...) : parsing, binding, generation of ghost clause functions.

import (
	"fmt"
	"go/ast"
	"go/parser"
	"go/token"
	"go/types"
	"regexp"
	"sort"
	"strings"
)

type Clause struct {
	Kind string // requires ensures invariant old modifies
	Expr string // Go expression text (after sugar expansion)
	Raw  string
	Name string // for old: the name ; generated ghost function name otherwise
	Line int
	File string
	Fn   string // ghost function name generated for it
	Type string // for old: Go type text
	// locals referenced (invariants): ordered list of (ident in expr, var object)
	Locals []*LocalRef
}

type LocalRef struct {
	Ident string // identifier as used in generated code
	Name  string // source variable name
	Ord   int    // ordinal among same-named locals (1-based)
	Var   *types.Var
}

type DependsClause struct {
	Param string
	Funcs []string
}

type LoopContract struct {
	Func    string
	Ordinal int
	Header  string // expected header text fragment (optional)
	Invs    []*Clause
	Decr    *Clause
	Line    int
	Havoc   []string // heaps to havoc wholesale at this loop head (the body writes pre-existing objects found while iterating)
}

type FuncContract struct {
	Name     string // as written: hasKey | (Map).ValuesForKey | (*byteReader).ReadByte
	Props    []string
	Olds     []*Clause
	Requires []*Clause
	Ensures  []*Clause
	Modifies []string
	Trusted  bool // contract assumed, body not verified
	Pure     bool
	Inline   bool // always inline at call sites (even if contracted)
	Uf       bool // ghost function kept as a named function: its definition is unfolded at ground arguments only, never under a quantifier
	MapStores *Clause // condition every map store of the function must satisfy (over the parameters and verifW, verifK, verifV)
	EscapeExempt *Clause // condition (over the parameters) under which raw texts may be written: comments, directives, ...
	EscapesValues bool // C05: every text derived from an interface value that this function writes must come from escapeChars while xmlEscapeChars is on
	InlineOnly bool // never verified on its own: its body is verified inlined into every verified caller (ownership data-flow obligations are still generated for it)
	Loops    map[int]*LoopContract
	IsInit   bool
	Decr     *Clause
	FreshResult bool // the (first) slice result is a freshly allocated backing array nobody else holds
	DependsOnly  []DependsClause
	Opaque       []string // ghost functions kept uninterpreted (not unfolded) while verifying this function
	OpaqueResult []string
	OpaqueShallow []string // opaque, and encoded as a function of the content of the argument maps only (see shallow.go)
	ReplayVia   []string // public entry points through which a counterexample of this (internal) function is searched
	OwnsLists   bool // assumption: lists found in the maps this function builds are exclusively owned by it
	Line     int
	Mangled  string
	// bound objects
	Obj *types.Func
}

type Contracts struct {
	Funcs    map[string]*FuncContract
	Order    []string
	InvExprs []*Clause // package invariant clauses
	Errors   []string
}

var reProp = regexp.MustCompile(`^C[0-9]{2,3}$`)

func mangle(name string) string {
	r := strings.NewReplacer("(*", "ptr_", "(", "", ")", "", ".", "_", "*", "ptr_")
	return r.Replace(name)
}

// expandSugar rewrites  A ==> B  into  !(A) || (B)  (right associative), also inside parentheses and braces.
func expandSugar(e string) string {
	if !strings.Contains(e, "==>") {
		return e
	}
	// first expand inside every bracketed group
	var sb strings.Builder
	inStr := byte(0)
	for i := 0; i < len(e); i++ {
		c := e[i]
		if inStr != 0 {
			sb.WriteByte(c)
			if c == '\\' && i+1 < len(e) {
				i++
				sb.WriteByte(e[i])
			} else if c == inStr {
				inStr = 0
			}
			continue
		}
		switch c {
		case '"', '\'', '`':
			inStr = c
			sb.WriteByte(c)
		case '(', '{', '[':
			close := map[byte]byte{'(': ')', '{': '}', '[': ']'}[c]
			depth := 1
			j := i + 1
			js := byte(0)
			for ; j < len(e) && depth > 0; j++ {
				d := e[j]
				if js != 0 {
					if d == '\\' {
						j++
					} else if d == js {
						js = 0
					}
					continue
				}
				if d == '"' || d == '\'' || d == '`' {
					js = d
				} else if d == c {
					depth++
				} else if d == close {
					depth--
				}
			}
			inner := e[i+1 : j-1]
			if c == '{' {
				// a function literal body: "return X" statements
				inner = expandReturns(inner)
			} else {
				inner = expandSugar(inner)
			}
			sb.WriteByte(c)
			sb.WriteString(inner)
			sb.WriteByte(close)
			i = j - 1
		default:
			sb.WriteByte(c)
		}
	}
	e = sb.String()
	// then the top level of this string
	depth := 0
	inStr = 0
	for i := 0; i+2 < len(e); i++ {
		c := e[i]
		if inStr != 0 {
			if c == '\\' {
				i++
			} else if c == inStr {
				inStr = 0
			}
			continue
		}
		switch c {
		case '"', '\'', '`':
			inStr = c
		case '(', '[', '{':
			depth++
		case ')', ']', '}':
			depth--
		case '=':
			if depth == 0 && e[i:i+3] == "==>" {
				return "!(" + strings.TrimSpace(e[:i]) + ") || (" + expandSugar(strings.TrimSpace(e[i+3:])) + ")"
			}
		}
	}
	return e
}

// expandReturns expands ==> in the expression of "return EXPR" inside a function literal body.
func expandReturns(body string) string {
	t := strings.TrimSpace(body)
	if strings.HasPrefix(t, "return ") && !strings.Contains(t, ";") {
		return " return " + expandSugar(strings.TrimSpace(t[7:])) + " "
	}
	return body
}

func ParseContracts(fset *token.FileSet, files []*ast.File) *Contracts {
	cs := &Contracts{Funcs: map[string]*FuncContract{}}
	var cur *FuncContract
	var curLoop *LoopContract
	for _, f := range files {
		fname := fset.Position(f.Pos()).Filename
		for _, cg := range f.Comments {
			for _, c := range cg.List {
				txt := c.Text
				if !strings.HasPrefix(txt, "//@") {
					continue
				}
				line := fset.Position(c.Pos()).Line
				body := strings.TrimSpace(txt[3:])
				if body == "" {
					continue
				}
				sp := strings.IndexAny(body, " \t")
				kw, rest := body, ""
				if sp > 0 {
					kw, rest = body[:sp], strings.TrimSpace(body[sp:])
				}
				errf := func(format string, a ...interface{}) {
					cs.Errors = append(cs.Errors, fmt.Sprintf("%s:%d: %s", fname, line, fmt.Sprintf(format, a...)))
				}
				switch kw {
				case "func":
					name := rest
					if i := strings.Index(name, "//"); i >= 0 {
						name = strings.TrimSpace(name[:i])
					}
					if _, dup := cs.Funcs[name]; dup {
						errf("duplicate contract for %s", name)
					}
					cur = &FuncContract{Name: name, Loops: map[int]*LoopContract{}, Line: line, Mangled: mangle(name)}
					cs.Funcs[name] = cur
					cs.Order = append(cs.Order, name)
					curLoop = nil
				case "loop":
					// loop NAME #K  [// header text]
					hdr := ""
					if i := strings.Index(rest, "//"); i >= 0 {
						hdr = strings.TrimSpace(rest[i+2:])
						rest = strings.TrimSpace(rest[:i])
					}
					parts := strings.Fields(rest)
					if len(parts) != 2 || !strings.HasPrefix(parts[1], "#") {
						errf("bad loop header %q", rest)
						continue
					}
					fc := cs.Funcs[parts[0]]
					if fc == nil {
						errf("loop contract for unknown func contract %s", parts[0])
						continue
					}
					var k int
					fmt.Sscanf(parts[1][1:], "%d", &k)
					curLoop = &LoopContract{Func: parts[0], Ordinal: k, Header: hdr, Line: line}
					fc.Loops[k] = curLoop
					cur = fc
				case "inv":
					cs.InvExprs = append(cs.InvExprs, &Clause{Kind: "inv", Expr: expandSugar(rest), Raw: rest, Line: line, File: fname})
				case "property", "old", "requires", "ensures", "modifies", "trusted", "pure", "inline", "inline-only", "uf", "escapes-values", "escape-exempt", "map-stores", "invariant", "decreases", "fresh-result", "owns-lists", "replay-via", "depends-only", "opaque-result", "opaque", "opaque-shallow", "havoc":
					if cur == nil {
						errf("clause outside func")
						continue
					}
					switch kw {
					case "property":
						for _, p := range strings.Fields(rest) {
							if !reProp.MatchString(p) {
								errf("bad property id %q", p)
							}
							cur.Props = append(cur.Props, p)
						}
					case "trusted":
						cur.Trusted = true
					case "fresh-result":
						cur.FreshResult = true
					case "owns-lists":
						cur.OwnsLists = true
					case "havoc":
						if curLoop == nil {
							errf("havoc outside loop")
							continue
						}
						curLoop.Havoc = append(curLoop.Havoc, strings.Fields(strings.ReplaceAll(rest, ",", " "))...)
					case "opaque":
						for _, f := range strings.Split(rest, ",") {
							if f = strings.TrimSpace(f); f != "" {
								cur.Opaque = append(cur.Opaque, f)
							}
						}
					case "opaque-shallow":
						for _, f := range strings.Split(rest, ",") {
							if f = strings.TrimSpace(f); f != "" {
								cur.Opaque = append(cur.Opaque, f)
								cur.OpaqueShallow = append(cur.OpaqueShallow, f)
							}
						}
					case "opaque-result":
						cur.OpaqueResult = append(cur.OpaqueResult, strings.Fields(rest)...)
					case "depends-only":
						parts := strings.SplitN(rest, ":", 2)
						if len(parts) != 2 {
							errf("depends-only PARAM : f, g")
							continue
						}
						dc := DependsClause{Param: strings.TrimSpace(parts[0])}
						for _, f := range strings.Split(parts[1], ",") {
							if f = strings.TrimSpace(f); f != "" {
								dc.Funcs = append(dc.Funcs, f)
							}
						}
						cur.DependsOnly = append(cur.DependsOnly, dc)
					case "replay-via":
						for _, f := range strings.Split(rest, ",") {
							if f = strings.TrimSpace(f); f != "" {
								cur.ReplayVia = append(cur.ReplayVia, f)
							}
						}
					case "pure":
						cur.Pure = true
					case "inline":
						cur.Inline = true
					case "uf":
						cur.Uf = true
					case "escapes-values":
						cur.EscapesValues = true
					case "map-stores":
						cur.MapStores = &Clause{Kind: kw, Expr: expandSugar(rest), Raw: rest, Line: line, File: fname}
					case "escape-exempt":
						cur.EscapeExempt = &Clause{Kind: kw, Expr: expandSugar(rest), Raw: rest, Line: line, File: fname}
					case "inline-only":
						cur.Inline = true
						cur.InlineOnly = true
					case "modifies":
						for _, m := range strings.Split(rest, ",") {
							if m = strings.TrimSpace(m); m != "" {
								cur.Modifies = append(cur.Modifies, m)
							}
						}
					case "old":
						eq := strings.Index(rest, "=")
						if eq < 0 {
							errf("old needs name = expr")
							continue
						}
						cur.Olds = append(cur.Olds, &Clause{Kind: "old", Name: strings.TrimSpace(rest[:eq]), Expr: strings.TrimSpace(rest[eq+1:]), Raw: rest, Line: line, File: fname})
					case "requires":
						cur.Requires = append(cur.Requires, &Clause{Kind: kw, Expr: expandSugar(rest), Raw: rest, Line: line, File: fname})
					case "ensures":
						cur.Ensures = append(cur.Ensures, &Clause{Kind: kw, Expr: expandSugar(rest), Raw: rest, Line: line, File: fname})
					case "invariant":
						if curLoop == nil {
							errf("invariant outside loop")
							continue
						}
						curLoop.Invs = append(curLoop.Invs, &Clause{Kind: kw, Expr: expandSugar(rest), Raw: rest, Line: line, File: fname})
					case "decreases":
						cl := &Clause{Kind: kw, Expr: rest, Raw: rest, Line: line, File: fname}
						if curLoop != nil {
							curLoop.Decr = cl
						} else {
							cur.Decr = cl
						}
					}
				default:
					errf("unknown contract keyword %q", kw)
				}
			}
		}
	}
	return cs
}

// lookupFunc resolves a contract function name to its types.Func in pkg.
func lookupFunc(pkg *types.Package, name string) *types.Func {
	if strings.HasPrefix(name, "(") {
		close := strings.Index(name, ")")
		if close < 0 || close+2 > len(name) {
			return nil
		}
		recv := name[1:close]
		meth := name[close+2:]
		recv = strings.TrimPrefix(recv, "*")
		obj := pkg.Scope().Lookup(recv)
		tn, ok := obj.(*types.TypeName)
		if !ok {
			return nil
		}
		named, ok := tn.Type().(*types.Named)
		if !ok {
			return nil
		}
		for i := 0; i < named.NumMethods(); i++ {
			if named.Method(i).Name() == meth {
				return named.Method(i)
			}
		}
		return nil
	}
	f, _ := pkg.Scope().Lookup(name).(*types.Func)
	return f
}

type paramInfo struct {
	name string
	typ  types.Type
}

func funcParams(fn *types.Func) (params, results []paramInfo) {
	sig := fn.Type().(*types.Signature)
	if r := sig.Recv(); r != nil {
		n := r.Name()
		if n == "" || n == "_" {
			n = "recv"
		}
		params = append(params, paramInfo{n, r.Type()})
	}
	for i := 0; i < sig.Params().Len(); i++ {
		p := sig.Params().At(i)
		n := p.Name()
		if n == "" || n == "_" {
			n = fmt.Sprintf("p%d", i)
		}
		params = append(params, paramInfo{n, p.Type()})
	}
	for i := 0; i < sig.Results().Len(); i++ {
		r := sig.Results().At(i)
		n := r.Name()
		if n == "" || n == "_" {
			n = "result"
			if i > 0 {
				n = fmt.Sprintf("result%d", i)
			}
		}
		results = append(results, paramInfo{n, r.Type()})
	}
	return
}

// GhostGen produces the source of the generated ghost file for one package.
type GhostGen struct {
	pkg     *types.Package
	fset    *token.FileSet
	info    *types.Info
	files   []*ast.File
	imports map[string]string // name -> path of imports seen in package files
	cs      *Contracts
}

func (g *GhostGen) qual(p *types.Package) string {
	if p == g.pkg {
		return ""
	}
	return p.Name()
}

func (g *GhostGen) typeStr(t types.Type) string { return types.TypeString(t, g.qual) }

func (g *GhostGen) plist(ps []paramInfo) string {
	var s []string
	for _, p := range ps {
		s = append(s, p.name+" "+g.typeStr(p.typ))
	}
	return strings.Join(s, ", ")
}

// funcDecl finds the AST declaration of fn.
func (g *GhostGen) funcDecl(fn *types.Func) *ast.FuncDecl {
	for _, f := range g.files {
		for _, d := range f.Decls {
			if fd, ok := d.(*ast.FuncDecl); ok && g.info.Defs[fd.Name] == fn {
				return fd
			}
		}
	}
	return nil
}

var reLocal = regexp.MustCompile(`\b([A-Za-z_][A-Za-z0-9_]*)#([0-9]+)\b`)

// resolveLocals finds identifiers in expr that denote local variables of fd.
func (g *GhostGen) resolveLocals(fd *ast.FuncDecl, expr string, known map[string]bool) (string, []*LocalRef, error) {
	// name#k -> name__k
	ords := map[string]int{}
	expr = reLocal.ReplaceAllStringFunc(expr, func(m string) string {
		sm := reLocal.FindStringSubmatch(m)
		var k int
		fmt.Sscanf(sm[2], "%d", &k)
		id := fmt.Sprintf("%s__%d", sm[1], k)
		ords[id] = k
		return id
	})
	e, err := parser.ParseExpr(expr)
	if err != nil {
		return expr, nil, fmt.Errorf("parse %q: %v", expr, err)
	}
	// gather local var objects by name in source order
	byName := map[string][]*types.Var{}
	ast.Inspect(fd.Body, func(n ast.Node) bool {
		if id, ok := n.(*ast.Ident); ok {
			if v, ok := g.info.Defs[id].(*types.Var); ok && v != nil && !v.IsField() {
				byName[id.Name] = append(byName[id.Name], v)
			}
		}
		return true
	})
	for _, vs := range byName {
		sort.Slice(vs, func(i, j int) bool { return vs[i].Pos() < vs[j].Pos() })
	}
	var refs []*LocalRef
	seen := map[string]bool{}
	bound := map[string]int{} // identifiers bound by func literals inside the expression
	var walk func(n ast.Node) bool
	walk = func(n ast.Node) bool {
		switch x := n.(type) {
		case *ast.FuncLit:
			for _, f := range x.Type.Params.List {
				for _, nm := range f.Names {
					bound[nm.Name]++
				}
			}
			ast.Inspect(x.Body, walk)
			for _, f := range x.Type.Params.List {
				for _, nm := range f.Names {
					bound[nm.Name]--
				}
			}
			return false
		case *ast.SelectorExpr:
			ast.Inspect(x.X, walk)
			return false
		case *ast.KeyValueExpr:
			ast.Inspect(x.Value, walk)
			return false
		case *ast.Ident:
			id := x.Name
			if known[id] || seen[id] || bound[id] > 0 {
				return true
			}
			name, ord := id, 1
			if k, ok := ords[id]; ok {
				name = id[:strings.LastIndex(id, "__")]
				ord = k
			}
			vs := byName[name]
			if len(vs) == 0 {
				return true // package-level or universe identifier
			}
			if g.pkg.Scope().Lookup(name) != nil && ords[id] == 0 && len(vs) == 0 {
				return true
			}
			if ord > len(vs) {
				err = fmt.Errorf("local %s#%d not found", name, ord)
				return true
			}
			seen[id] = true
			refs = append(refs, &LocalRef{Ident: id, Name: name, Ord: ord, Var: vs[ord-1]})
		}
		return true
	}
	ast.Inspect(e, walk)
	return expr, refs, err
}

func (g *GhostGen) Generate() (string, []string) {
	var sb strings.Builder
	var errs []string
	var body strings.Builder
	names := make([]string, 0, len(g.cs.Funcs))
	names = append(names, g.cs.Order...)
	for _, name := range names {
		fc := g.cs.Funcs[name]
		fn := lookupFunc(g.pkg, name)
		var params, results []paramInfo
		if name == "init" {
			fc.IsInit = true
		} else {
			if fn == nil {
				errs = append(errs, fmt.Sprintf("contract-target: func %s not found (contract line %d)", name, fc.Line))
				continue
			}
			fc.Obj = fn
			params, results = funcParams(fn)
		}
		known := map[string]bool{}
		for _, p := range params {
			known[p.name] = true
		}
		var fd *ast.FuncDecl
		if fn != nil {
			fd = g.funcDecl(fn)
		}
		// olds: type by CheckExpr in function scope
		var olds []paramInfo
		for i, o := range fc.Olds {
			e, err := parser.ParseExpr(o.Expr)
			if err != nil {
				errs = append(errs, fmt.Sprintf("contract %s old %s: %v", name, o.Name, err))
				continue
			}
			pos := token.NoPos
			if fn != nil {
				pos = fn.Pos()
			}
			if fd != nil && fd.Body != nil {
				pos = fd.Body.Lbrace + 1
			}
			inf := &types.Info{Types: map[ast.Expr]types.TypeAndValue{}}
			if err := types.CheckExpr(g.fset, g.pkg, pos, e, inf); err != nil {
				errs = append(errs, fmt.Sprintf("contract %s old %s: %v", name, o.Name, err))
				continue
			}
			t := inf.Types[e].Type
			if b, ok := t.(*types.Basic); ok && b.Info()&types.IsUntyped != 0 {
				t = types.Default(t)
			}
			o.Type = g.typeStr(t)
			o.Fn = fmt.Sprintf("verif__%s__old%d", fc.Mangled, i)
			fmt.Fprintf(&body, "func %s(%s) %s { return %s }\n", o.Fn, g.plist(params), o.Type, o.Expr)
			olds = append(olds, paramInfo{o.Name, t})
		}
		for _, o := range olds {
			known[o.name] = true
		}
		if fc.Decr != nil {
			fc.Decr.Fn = fmt.Sprintf("verif__%s__decr", fc.Mangled)
			fmt.Fprintf(&body, "func %s(%s) int { return %s }\n", fc.Decr.Fn, g.plist(params), fc.Decr.Expr)
		}
		if fc.MapStores != nil {
			fc.MapStores.Fn = fmt.Sprintf("verif__%s__mapstores", fc.Mangled)
			ps := g.plist(params)
			if ps != "" {
				ps += ", "
			}
			fmt.Fprintf(&body, "func %s(%sverifW map[string]interface{}, verifK string, verifV interface{}) bool { return %s }\n", fc.MapStores.Fn, ps, fc.MapStores.Expr)
		}
		if fc.EscapeExempt != nil {
			fc.EscapeExempt.Fn = fmt.Sprintf("verif__%s__escexempt", fc.Mangled)
			fmt.Fprintf(&body, "func %s(%s) bool { return %s }\n", fc.EscapeExempt.Fn, g.plist(params), fc.EscapeExempt.Expr)
		}
		for i, c := range fc.Requires {
			c.Fn = fmt.Sprintf("verif__%s__req%d", fc.Mangled, i)
			fmt.Fprintf(&body, "func %s(%s) bool { return %s }\n", c.Fn, g.plist(params), c.Expr)
		}
		all := append(append([]paramInfo{}, params...), results...)
		all = append(all, olds...)
		for i, c := range fc.Ensures {
			c.Fn = fmt.Sprintf("verif__%s__ens%d", fc.Mangled, i)
			fmt.Fprintf(&body, "func %s(%s) bool { return %s }\n", c.Fn, g.plist(all), c.Expr)
		}
		for _, r := range results {
			known[r.name] = false
		}
		// loops
		var lks []int
		for k := range fc.Loops {
			lks = append(lks, k)
		}
		sort.Ints(lks)
		for _, k := range lks {
			lc := fc.Loops[k]
			if lc.Decr != nil && fd != nil {
				expr, refs, err := g.resolveLocals(fd, lc.Decr.Expr, known)
				if err != nil {
					errs = append(errs, fmt.Sprintf("contract %s loop #%d: %v", name, k, err))
				} else {
					lc.Decr.Locals = refs
					ps := append(append([]paramInfo{}, params...), olds...)
					for _, r := range refs {
						ps = append(ps, paramInfo{r.Ident, r.Var.Type()})
					}
					lc.Decr.Fn = fmt.Sprintf("verif__%s__decr%d", fc.Mangled, k)
					fmt.Fprintf(&body, "func %s(%s) int { return %s }\n", lc.Decr.Fn, g.plist(ps), expr)
				}
			}
			for i, c := range lc.Invs {
				if fd == nil {
					errs = append(errs, fmt.Sprintf("contract %s loop %d: no declaration", name, k))
					continue
				}
				expr, refs, err := g.resolveLocals(fd, c.Expr, known)
				if err != nil {
					errs = append(errs, fmt.Sprintf("contract %s loop #%d: %v", name, k, err))
					continue
				}
				c.Locals = refs
				ps := append(append([]paramInfo{}, params...), olds...)
				for _, r := range refs {
					ps = append(ps, paramInfo{r.Ident, r.Var.Type()})
				}
				c.Fn = fmt.Sprintf("verif__%s__inv%d_%d", fc.Mangled, k, i)
				fmt.Fprintf(&body, "func %s(%s) bool { return %s }\n", c.Fn, g.plist(ps), expr)
			}
		}
	}
	for i, c := range g.cs.InvExprs {
		c.Fn = fmt.Sprintf("verif__pkginv%d", i)
		fmt.Fprintf(&body, "func %s() bool { return %s }\n", c.Fn, c.Expr)
	}
	text := body.String()
	sb.WriteString("// Code generated by govc from //@ contract clauses. DO NOT EDIT.\n\npackage " + g.pkg.Name() + "\n\n")
	var imps []string
	for n, p := range g.imports {
		if regexp.MustCompile(`\b` + regexp.QuoteMeta(n) + `\.`).MatchString(text) {
			imps = append(imps, fmt.Sprintf("import %s %q", n, p))
		}
	}
	sort.Strings(imps)
	for _, i := range imps {
		sb.WriteString(i + "\n")
	}
	sb.WriteString("\n")
	sb.WriteString(text)
	return sb.String(), errs
}
