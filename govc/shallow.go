package main

import (
	"fmt"
	"go/token"
	"go/types"

	"golang.org/x/tools/go/ssa"
)

// Shallow ghost functions.
//
// A ghost function applied under "opaque-shallow f" is encoded as an uninterpreted function of the *content of the
// maps it is given* (the dom / sel / len entries of each map argument, and of the map inside each interface argument)
// instead of the whole map heaps. A store into any other map then leaves the application unchanged by plain array
// reasoning - no frame lemma is needed. This is only sound for a function that reads the map heaps nowhere else:
// shallowReads checks that on the SSA of the function and everything it calls (fail closed).

const (
	clsNone = 0 // not a map / nothing known to hold a map the function may read
	clsRoot = 1 // an argument map (or the interface argument holding it): may be read
	clsDeep = 2 // a value found inside a map or list: must not be read as a map
)

type shallowKey struct {
	fn  *ssa.Function
	sig string
}

func (e *Engine) shallowReads(fn *ssa.Function) error {
	if e.shallowMemo == nil {
		e.shallowMemo = map[shallowKey]error{}
	}
	var pc []int
	for _, p := range fn.Params {
		pc = append(pc, classOfParam(p.Type()))
	}
	return e.shallowFn(fn, pc, nil, map[shallowKey]bool{})
}

func classOfParam(t types.Type) int {
	switch t.Underlying().(type) {
	case *types.Map, *types.Interface:
		return clsRoot
	case *types.Basic:
		return clsNone
	}
	return clsDeep // slices, pointers, structs: whatever they hold is not part of the footprint
}

func (e *Engine) shallowFn(fn *ssa.Function, params, free []int, active map[shallowKey]bool) error {
	key := shallowKey{fn, fmt.Sprint(params, free)}
	if err, ok := e.shallowMemo[key]; ok {
		return err
	}
	if active[key] {
		return nil // recursion with the same classes: the outer activation decides
	}
	active[key] = true
	defer delete(active, key)
	err := e.shallowFn1(fn, params, free, active)
	e.shallowMemo[key] = err
	return err
}

func (e *Engine) shallowFn1(fn *ssa.Function, params, free []int, active map[shallowKey]bool) error {
	if fn.Blocks == nil {
		return fmt.Errorf("%s has no body", fn.Name())
	}
	cls := map[ssa.Value]int{}
	cellCls := map[*ssa.Alloc]int{}
	for i, p := range fn.Params {
		if i < len(params) {
			cls[p] = params[i]
		} else {
			cls[p] = clsDeep
		}
	}
	for i, fv := range fn.FreeVars {
		if i < len(free) {
			cls[fv] = free[i]
		} else {
			cls[fv] = clsDeep
		}
	}
	get := func(v ssa.Value) int {
		if c, ok := cls[v]; ok {
			return c
		}
		switch v.(type) {
		case *ssa.Const:
			return clsNone
		}
		switch v.Type().Underlying().(type) {
		case *types.Basic:
			return clsNone
		}
		return clsDeep // unknown origin (global, load, ...): must not be read as a map
	}
	bad := func(in ssa.Instruction, what string) error {
		return fmt.Errorf("%s: %s at %s", fn.Name(), what, e.ld.Fset.Position(in.Pos()))
	}
	isMap := func(t types.Type) bool { _, ok := t.Underlying().(*types.Map); return ok }
	for pass := 0; pass < 4; pass++ {
		for _, b := range fn.Blocks {
			for _, in := range b.Instrs {
				switch x := in.(type) {
				case *ssa.TypeAssert:
					cls[x] = get(x.X)
				case *ssa.ChangeType:
					cls[x] = get(x.X)
				case *ssa.MakeInterface:
					cls[x] = get(x.X)
				case *ssa.ChangeInterface:
					cls[x] = get(x.X)
				case *ssa.Convert:
					cls[x] = get(x.X)
				case *ssa.Extract:
					cls[x] = get(x.Tuple)
				case *ssa.Phi:
					m := clsNone
					for _, ed := range x.Edges {
						if c := get(ed); c > m {
							m = c
						}
					}
					cls[x] = m
				case *ssa.Lookup:
					if isMap(x.X.Type()) {
						if get(x.X) != clsRoot {
							return bad(in, "reads a map that is not one of the arguments")
						}
						cls[x] = clsDeep
					} else {
						cls[x] = clsNone
					}
				case *ssa.Range:
					if isMap(x.X.Type()) && get(x.X) != clsRoot {
						return bad(in, "ranges over a map that is not one of the arguments")
					}
					cls[x] = clsDeep
				case *ssa.Next:
					cls[x] = clsDeep
				case *ssa.Store:
					// naive-form SSA keeps parameters and locals in cells: a cell has the highest class stored into it
					if al, ok := x.Addr.(*ssa.Alloc); ok {
						if c := get(x.Val); c > cellCls[al] {
							cellCls[al] = c
						}
					}
				case *ssa.UnOp:
					if al, ok := x.X.(*ssa.Alloc); ok && x.Op == token.MUL {
						cls[x] = cellCls[al]
						continue
					}
					if fv, ok := x.X.(*ssa.FreeVar); ok && x.Op == token.MUL {
						cls[x] = get(fv) // a captured cell: the closure sees the class of what the cell holds
						continue
					}
					if _, basic := x.Type().Underlying().(*types.Basic); basic {
						cls[x] = clsNone
					} else {
						cls[x] = clsDeep
					}
				case *ssa.Index, *ssa.IndexAddr, *ssa.Slice, *ssa.FieldAddr, *ssa.Field:
					v := in.(ssa.Value)
					if _, basic := v.Type().Underlying().(*types.Basic); basic {
						cls[v] = clsNone
					} else {
						cls[v] = clsDeep
					}
				case *ssa.MapUpdate:
					return bad(in, "writes a map")
				case *ssa.MakeClosure:
					cls[x] = clsNone
				case *ssa.Call:
					cc := x.Call
					if bi, ok := cc.Value.(*ssa.Builtin); ok {
						if bi.Name() == "len" && isMap(cc.Args[0].Type()) && get(cc.Args[0]) != clsRoot {
							return bad(in, "takes the length of a map that is not one of the arguments")
						}
						cls[x] = clsNone
						continue
					}
					callee := cc.StaticCallee()
					if callee == nil {
						return bad(in, "calls through a function value")
					}
					if callee.Pkg != e.ld.SSA {
						cls[x] = clsNone // library code has no access to the Map heaps of the model
						if _, basic := x.Type().Underlying().(*types.Basic); !basic {
							cls[x] = clsDeep
						}
						continue
					}
					cls[x] = clsDeep
					if _, basic := x.Type().Underlying().(*types.Basic); basic {
						cls[x] = clsNone
					}
					if callee.Name() == "verifForallKeys" {
						if get(cc.Args[0]) != clsRoot {
							return bad(in, "quantifies over the keys of a map that is not one of the arguments")
						}
						mc, ok := cc.Args[1].(*ssa.MakeClosure)
						if !ok {
							return bad(in, "verifForallKeys with a predicate that is not a literal closure")
						}
						var fcl []int
						for _, bnd := range mc.Bindings {
							if al, ok := bnd.(*ssa.Alloc); ok {
								fcl = append(fcl, cellCls[al])
							} else {
								fcl = append(fcl, get(bnd))
							}
						}
						if err := e.shallowFn(mc.Fn.(*ssa.Function), []int{clsNone, clsDeep}, fcl, active); err != nil {
							return err
						}
						continue
					}
					if callee.Name() == "verifSameVal" || callee.Name() == "verifIsScalar" || callee.Name() == "verifIsString" {
						continue // compare / classify values without reading any map
					}
					if ghostIntrinsicHeaps(callee) != nil {
						return bad(in, "calls the heap-reading intrinsic "+callee.Name())
					}
					var pcl []int
					for _, a := range cc.Args {
						pcl = append(pcl, get(a))
					}
					if err := e.shallowFn(callee, pcl, nil, active); err != nil {
						return err
					}
				}
			}
		}
	}
	return nil
}

// shallowArgs: the heap-dependent arguments of a shallow application: for every map heap the content at each map
// argument (and at the map inside each interface argument).
func (c *FnCtx) shallowArgs(st *State, fn *ssa.Function, si *SpecInfo, args []*Term) []*Term {
	ts := c.eng.ts
	if err := c.eng.shallowReads(fn); err != nil {
		unsupported("opaque-shallow %s: %v", fn.Name(), err)
	}
	var objs []*Term
	for i, p := range fn.Params {
		if i >= len(args) {
			break
		}
		switch p.Type().Underlying().(type) {
		case *types.Map:
			objs = append(objs, args[i])
		case *types.Interface:
			objs = append(objs, ts.App("vmap", SInt, args[i]))
		}
	}
	var out []*Term
	for _, h := range si.heaps {
		srt, ok := c.eng.heapSorts[h]
		if !ok {
			continue
		}
		if h != "Mdom:map[string]interface{}" && h != "Msel:map[string]interface{}" && h != "Mlen:map[string]interface{}" {
			unsupported("opaque-shallow %s: reads heap %s", fn.Name(), h)
		}
		hp := c.heap(st, h, srt)
		for _, o := range objs {
			out = append(out, ts.Select(hp, o))
		}
	}
	return out
}
