package main

// Mapping of Go types to SMT sorts, zero values, interface boxing.

import (
	"fmt"
	"go/types"
	"regexp"
	"sort"
	"strings"
)

const preludeVal = `(declare-sort F64 0)
(declare-datatypes ((Val 0)) (((VNil) (VStr (vstr String)) (VBool (vbool Bool)) (VInt (vint Int)) (VI64 (vi64 Int)) (VU64 (vu64 Int)) (VF64 (vf64 F64)) (VMap (vmap Int)) (VList (vlist (Seq Val))) (VBox (vtid Int) (vbox Int)))))
`

// TypeCtx holds per-run type information: struct datatypes, type ids.
type TypeCtx struct {
	ts       *TermStore
	structs  map[string]*StructInfo // keyed by type string
	order    []*StructInfo          // declaration order (dependencies first)
	tids     map[string]int
	tidTypes map[int]types.Type
	pkgPath  string
}

type StructInfo struct {
	key    string
	name   string // SMT datatype name
	typ    *types.Struct
	fields []Sort
	fnames []string
	decl   string
}

func NewTypeCtx(ts *TermStore) *TypeCtx {
	return &TypeCtx{ts: ts, structs: map[string]*StructInfo{}, tids: map[string]int{}, tidTypes: map[int]types.Type{}}
}

var reAny = regexp.MustCompile(`\bany\b`)

func typeKey(t types.Type) string { return reAny.ReplaceAllString(types.TypeString(t, nil), "interface{}") }

// opaque reports struct types whose fields we never look at (stdlib objects).
func isOpaqueStruct(t types.Type) bool {
	n, ok := t.(*types.Named)
	if !ok {
		return false
	}
	if _, ok := n.Underlying().(*types.Struct); !ok {
		return false
	}
	p := n.Obj().Pkg()
	if p == nil {
		return false
	}
	switch p.Path() {
	case "encoding/xml":
		// xml token structs are plain data
		switch n.Obj().Name() {
		case "StartElement", "EndElement", "Attr", "Name", "ProcInst":
			return false
		}
		return true
	case "github.com/clbanning/mxj/v2", "github.com/clbanning/mxj/v2/x2j-wrapper", "github.com/clbanning/mxj/v2/j2x", "github.com/clbanning/mxj/v2/x2j":
		return false
	}
	return true
}

func (tc *TypeCtx) SortOf(t types.Type) Sort {
	switch u := t.Underlying().(type) {
	case *types.Basic:
		switch {
		case u.Info()&types.IsBoolean != 0:
			return SBool
		case u.Info()&types.IsInteger != 0:
			return SInt
		case u.Info()&types.IsFloat != 0:
			return SF64
		case u.Info()&types.IsString != 0:
			return SString
		case u.Kind() == types.UnsafePointer:
			return SInt
		case u.Kind() == types.UntypedNil:
			return SVal
		case u.Info()&types.IsComplex != 0:
			return SF64
		}
	case *types.Interface:
		return SVal
	case *types.Pointer, *types.Map, *types.Chan, *types.Signature:
		return SInt
	case *types.Slice:
		if isByte(u.Elem()) {
			return SString
		}
		return SeqOf(tc.SortOf(u.Elem()))
	case *types.Array:
		if isByte(u.Elem()) {
			return SString
		}
		return SeqOf(tc.SortOf(u.Elem()))
	case *types.Struct:
		if isOpaqueStruct(t) {
			return SInt
		}
		return Sort(tc.structInfo(t).name)
	case *types.Tuple:
		panic("tuple has no sort")
	}
	panic(fmt.Sprintf("SortOf: unsupported type %s", t))
}

func isByte(t types.Type) bool {
	b, ok := t.Underlying().(*types.Basic)
	return ok && (b.Kind() == types.Uint8)
}

func (tc *TypeCtx) structInfo(t types.Type) *StructInfo {
	key := typeKey(t)
	if si, ok := tc.structs[key]; ok {
		return si
	}
	st := t.Underlying().(*types.Struct)
	si := &StructInfo{key: key, typ: st}
	si.name = "S!" + sanitize(strings.ReplaceAll(strings.ReplaceAll(key, "github.com/clbanning/mxj/v2", "mxj"), "/", "."))
	if len(si.name) > 60 {
		si.name = fmt.Sprintf("%s!%d", si.name[:50], len(tc.structs))
	}
	tc.structs[key] = si
	var fs []string
	for i := 0; i < st.NumFields(); i++ {
		f := st.Field(i)
		s := tc.SortOf(f.Type())
		si.fields = append(si.fields, s)
		si.fnames = append(si.fnames, f.Name())
		fs = append(fs, fmt.Sprintf("(%s!%d %s)", si.name, i, s))
	}
	if len(fs) == 0 {
		si.decl = fmt.Sprintf("(declare-datatypes ((%s 0)) (((mk!%s))))", si.name, si.name)
	} else {
		si.decl = fmt.Sprintf("(declare-datatypes ((%s 0)) (((mk!%s %s))))", si.name, si.name, strings.Join(fs, " "))
	}
	tc.order = append(tc.order, si)
	return si
}

func (tc *TypeCtx) Datatypes() []string {
	var out []string
	for _, si := range tc.order {
		out = append(out, si.decl)
	}
	return out
}

func (tc *TypeCtx) MkStruct(t types.Type, fields []*Term) *Term {
	si := tc.structInfo(t)
	// mk(sel0(x), sel1(x), ...) == x
	if len(fields) > 0 {
		var base *Term
		ok := true
		for i, f := range fields {
			if f.kind == kApp && f.op == fmt.Sprintf("%s!%d", si.name, i) && (base == nil || base == f.args[0]) {
				base = f.args[0]
			} else {
				ok = false
				break
			}
		}
		if ok && base != nil {
			return base
		}
	}
	return tc.ts.App("mk!"+si.name, Sort(si.name), fields...)
}

func (tc *TypeCtx) Field(t types.Type, v *Term, i int) *Term {
	si := tc.structInfo(t)
	if v.kind == kApp && v.op == "mk!"+si.name {
		return v.args[i]
	}
	if v.kind == kApp && v.op == "ite" {
		return tc.ts.Ite(v.args[0], tc.Field(t, v.args[1], i), tc.Field(t, v.args[2], i))
	}
	return tc.ts.App(fmt.Sprintf("%s!%d", si.name, i), si.fields[i], v)
}

func (tc *TypeCtx) WithField(t types.Type, v *Term, i int, nv *Term) *Term {
	si := tc.structInfo(t)
	fs := make([]*Term, len(si.fields))
	for j := range fs {
		if j == i {
			fs[j] = nv
		} else {
			fs[j] = tc.Field(t, v, j)
		}
	}
	return tc.MkStruct(t, fs)
}

func (tc *TypeCtx) Zero(t types.Type) *Term {
	ts := tc.ts
	s := tc.SortOf(t)
	switch s {
	case SInt:
		return ts.Int(0)
	case SBool:
		return ts.Bool(false)
	case SString:
		if a, ok := t.Underlying().(*types.Array); ok {
			return ts.Str(strings.Repeat("\x00", int(a.Len())))
		}
		return ts.Str("")
	case SVal:
		return ts.App("VNil", SVal)
	case SF64:
		return ts.UF("f64!zero", SF64)
	}
	if s.IsSeq() {
		if a, ok := t.Underlying().(*types.Array); ok {
			r := ts.EmptySeq(s)
			z := tc.Zero(a.Elem())
			for i := int64(0); i < a.Len(); i++ {
				r = ts.Concat(r, ts.Unit(z))
			}
			return r
		}
		return ts.EmptySeq(s)
	}
	if st, ok := t.Underlying().(*types.Struct); ok {
		fs := make([]*Term, st.NumFields())
		for i := range fs {
			fs[i] = tc.Zero(st.Field(i).Type())
		}
		return tc.MkStruct(t, fs)
	}
	panic("Zero: " + t.String())
}

// ---- interface boxing ----

func (tc *TypeCtx) Tid(t types.Type) int {
	k := typeKey(t)
	if id, ok := tc.tids[k]; ok {
		return id
	}
	id := 100 + len(tc.tids)
	tc.tids[k] = id
	tc.tidTypes[id] = t
	return id
}

// dedicated constructor for a concrete dynamic type, or "" for generic boxing
func valCtor(t types.Type) (ctor, sel string) {
	switch u := t.(type) {
	case *types.Basic:
		switch u.Kind() {
		case types.String, types.UntypedString:
			return "VStr", "vstr"
		case types.Bool, types.UntypedBool:
			return "VBool", "vbool"
		case types.Int, types.UntypedInt:
			return "VInt", "vint"
		case types.Int64:
			return "VI64", "vi64"
		case types.Uint64:
			return "VU64", "vu64"
		case types.Float64, types.UntypedFloat:
			return "VF64", "vf64"
		}
	case *types.Map:
		if typeKey(t) == "map[string]interface{}" {
			return "VMap", "vmap"
		}
	case *types.Slice:
		if typeKey(t) == "[]interface{}" {
			return "VList", "vlist"
		}
	}
	return "", ""
}

// Box wraps a value of concrete static type t into Val. Extra facts (unbox∘box) are returned.
func (tc *TypeCtx) Box(t types.Type, v *Term) (*Term, []*Term) {
	ts := tc.ts
	if types.IsInterface(t) {
		return v, nil
	}
	if c, _ := valCtor(t); c != "" {
		return ts.App(c, SVal, v), nil
	}
	tid := tc.Tid(t)
	s := tc.SortOf(t)
	if s == SInt {
		// pointers, ints of other widths, maps of other types: payload is the Int itself
		return ts.App("VBox", SVal, ts.Int(int64(tid)), v), nil
	}
	name := fmt.Sprintf("box!%d", tid)
	b := ts.UF(name, SInt, v)
	un := ts.UF(fmt.Sprintf("unbox!%d", tid), s, b)
	return ts.App("VBox", SVal, ts.Int(int64(tid)), b), []*Term{ts.Eq(un, v)}
}

// IsType tests whether interface value v has concrete dynamic type t.
func (tc *TypeCtx) IsType(t types.Type, v *Term) *Term {
	ts := tc.ts
	if c, _ := valCtor(t); c != "" {
		if v.kind == kApp && len(v.op) > 1 && v.op[0] == 'V' {
			return ts.Bool(v.op == c)
		}
		return ts.App("(_ is "+c+")", SBool, v)
	}
	tid := tc.Tid(t)
	if v.kind == kApp && v.op == "VBox" {
		return ts.Eq(v.args[0], ts.Int(int64(tid)))
	}
	if v.kind == kApp && len(v.op) > 1 && v.op[0] == 'V' && v.op != "VBox" {
		return ts.Bool(false)
	}
	return ts.And(ts.App("(_ is VBox)", SBool, v), ts.Eq(ts.App("vtid", SInt, v), ts.Int(int64(tid))))
}

// Unbox extracts the payload of dynamic type t.
func (tc *TypeCtx) Unbox(t types.Type, v *Term) *Term {
	ts := tc.ts
	if c, sel := valCtor(t); c != "" {
		if v.kind == kApp && v.op == c {
			return v.args[0]
		}
		return ts.App(sel, tc.SortOf(t), v)
	}
	tid := tc.Tid(t)
	s := tc.SortOf(t)
	var payload *Term
	if v.kind == kApp && v.op == "VBox" {
		payload = v.args[1]
	} else {
		payload = ts.App("vbox", SInt, v)
	}
	if s == SInt {
		return payload
	}
	return ts.UF(fmt.Sprintf("unbox!%d", tid), s, payload)
}

func (tc *TypeCtx) IsNilVal(v *Term) *Term {
	if v.kind == kApp && len(v.op) > 1 && v.op[0] == 'V' {
		return tc.ts.Bool(v.op == "VNil")
	}
	return tc.ts.App("(_ is VNil)", SBool, v)
}

// TidOf returns the type-id term of a Val (dedicated constructors have ids 1..9).
func (tc *TypeCtx) TidOf(v *Term) *Term {
	ts := tc.ts
	r := ts.App("vtid", SInt, v)
	ded := []string{"VNil", "VStr", "VBool", "VInt", "VI64", "VU64", "VF64", "VMap", "VList"}
	for i := len(ded) - 1; i >= 0; i-- {
		r = ts.Ite(ts.App("(_ is "+ded[i]+")", SBool, v), ts.Int(int64(i)), r)
	}
	return r
}

func dedicatedTid(t types.Type) int {
	c, _ := valCtor(t)
	for i, d := range []string{"VNil", "VStr", "VBool", "VInt", "VI64", "VU64", "VF64", "VMap", "VList"} {
		if c == d {
			return i
		}
	}
	return -1
}

func (tc *TypeCtx) SortedTids() []int {
	var ids []int
	for id := range tc.tidTypes {
		ids = append(ids, id)
	}
	sort.Ints(ids)
	return ids
}
