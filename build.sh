#!/bin/sh
# builds the verifier (offline)
cd /verif/govc && GOFLAGS=-mod=mod GOPROXY=off GOSUMDB=off GOTOOLCHAIN=local go build -o ../bin/govc . 
