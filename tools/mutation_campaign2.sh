#!/bin/sh
# second campaign: functions not covered by mutation_campaign.sh, and C10 again after its contracts were strengthened
cd /verif
run() { python3 tools/mutate.py "$@" --jobs 4 --timeout 30; }
run C10 updatevalues.go updateValue,updateValuesForKeyPath,UpdateValuesForPath --max 70
run C08 keyvalues.go hasKey,hasSubKeys,getSubKeyMap,ValuesForKey --max 30
run C07 keyvalues.go ValuesForPath,valuesForArray,parsePath --max 20
run C11 set.go SetValueForPath --max 12
run C08 setfieldsep.go SetFieldSeparator --max 6
run C20 j2x/j2x.go JsonUpdateValsForPath,JsonNewJson,JsonValuesForKeyPath,JsonLeafValues --max 12 --pkg j2x
run C09 leafnode.go getLeafNodes,LeafNodes,LeafPaths,LeafValues --max 40
