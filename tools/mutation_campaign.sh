#!/bin/sh
# mutation campaigns over the functions the claimed properties are anchored in (results: one line per mutant)
cd /verif
run() { python3 tools/mutate.py "$@" --jobs 3 --timeout 30; }
run C07 keyvalues.go valuesForKeyPath,oldValuesForPath,ValueForPath,Exists --max 24
run C09 leafnode.go getLeafNodes,LeafNodes,LeafPaths,LeafValues --max 16
run C10 updatevalues.go updateValue,updateValuesForKeyPath,UpdateValuesForPath --max 24
run C11 rename.go RenameKey,renameKey,prevValueByPath --max 16
run C11 remove.go Remove,remove --max 10
run C11 set.go SetValueForPath --max 8
run C12 newmap.go NewMap,addNewVal --max 24
run C13 json.go getJson,NewMapJsonReaderRaw --max 20
run C14 xml.go cast --max 20
run C06 json.go NewMapJson,Json,JsonIndent,jsonEncode --max 16
run C19 files.go JsonFile,XmlFile,JsonFileIndent,XmlFileIndent --max 10
run C05 escapechars.go escapeChars,XMLEscapeChars,XMLEscapeCharsDecoder --max 12
run C20 x2j-wrapper/x2j_valuesFrom.go valuesFromKeyPath,ValuesFromKeyPath --max 16 --pkg x2j-wrapper
