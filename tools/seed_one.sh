#!/bin/sh
# usage: seed_one.sh <name e.g. C07-c> <PROP> [pkgdir] [govc args...]: confirm the sub-agent's seed, file it, test the check, remove the worktree
n=$1; p=$2; pkg=${3:-.}; shift 3 2>/dev/null
python3 /verif/tools/confirm_seed.py /tmp/seed/$n $n $p $pkg > /tmp/confirm.$n.out 2>&1
tail -1 /tmp/confirm.$n.out | grep -q CONFIRMED && echo "$n CONFIRMED" || { echo "$n NOT CONFIRMED"; tail -5 /tmp/confirm.$n.out; }
git -C /repo worktree remove --force /tmp/seed/$n 2>/dev/null
if [ -d /verif/seeded/$n ]; then /verif/tools/try_seed.sh /verif/seeded/$n $p "$@" | cut -c1-230 | head -4; fi
