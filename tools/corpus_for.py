#!/usr/bin/env python3
"""corpus_for.py <PROP> <budget-seconds>: replays the must-fail corpus entries of one property (see thorough.sh) and
records the tally in /verif/evidence/<PROP>.json under coverage.must_fail_corpus. Never fails the check."""
import json, os, subprocess, sys, tempfile, shutil, glob, time
V = '/verif'
prop, budget = sys.argv[1], int(sys.argv[2])
t0 = time.time()
def sh(cmd, **kw):
    return subprocess.run(cmd, shell=True, capture_output=True, text=True, **kw)
entries = []
for d in sorted(glob.glob(f'{V}/seeded/*/') + glob.glob(f'{V}/selftest/*/')):
    try:
        meta = json.load(open(d + 'meta.json'))
    except Exception:
        continue
    props = meta['property'] if isinstance(meta['property'], list) else [meta['property']]
    if prop in props and os.path.exists(d + 'patch.diff'):
        entries.append((os.path.basename(d.rstrip('/')), d, meta))
claims = json.load(open(f'{V}/tools/claims.json')).get(prop, {})
tmo = claims.get('timeout', 10)
tmo = max(tmo, 30)
res = []
for name, d, meta in entries:
    if time.time() - t0 > budget:
        res.append({'entry': name, 'result': 'not run (time budget)'}); continue
    wt = tempfile.mkdtemp(prefix='govc-corpus-'); os.rmdir(wt)
    if sh(f'git -C /repo worktree add --detach {wt} HEAD').returncode != 0:
        res.append({'entry': name, 'result': 'not run (no scratch worktree)'}); continue
    try:
        if sh(f'git -C {wt} apply {d}patch.diff').returncode != 0:
            res.append({'entry': name, 'result': 'patch does not apply to HEAD'}); continue
        r = sh(f'{V}/bin/govc check {prop} --timeout {tmo} --repo {wt} --verif {wt}/.verif-out', cwd=V)
        viol = [l for l in r.stdout.splitlines() if l.startswith('VIOLATION')]
        ob = viol[0].split('obligation=')[1][:100] if viol and 'obligation=' in viol[0] else ''
        res.append({'entry': name, 'result': 'reported' if (r.returncode == 1 and viol) else 'NOT REPORTED', 'first_obligation': ob})
    finally:
        sh(f'git -C /repo worktree remove --force {wt}'); shutil.rmtree(wt, ignore_errors=True)
p = f'{V}/evidence/{prop}.json'
e = json.load(open(p))
e.setdefault('coverage', {})['must_fail_corpus'] = {
    'what': 'reversed fix: commits (canaries) and independent property-breaking changes (seeded) applied to scratch worktrees of HEAD; each must be reported by this check',
    'entries': res, 'reported': sum(1 for r in res if r['result'] == 'reported'), 'total': len(res), 'seconds': round(time.time() - t0)}
json.dump(e, open(p, 'w'), indent=1)
print(json.dumps(e['coverage']['must_fail_corpus'])[:300])
