#!/bin/sh
# usage: try_seed.sh <dir-with-patch.diff> <PROP> [govc args]
# applies the patch to /repo, runs the property's check, and undoes the patch straight afterwards.
d=$1; p=$2; shift 2
if [ -n "$(git -C /repo status --porcelain)" ]; then echo "try_seed: /repo has uncommitted changes - commit or stash them first (this script ends with git checkout -- .)"; exit 3; fi
git -C /repo apply "$d/patch.diff" || exit 2
/verif/bin/govc check "$p" --verif /tmp/try-seed-out "$@" | grep -E "^(VIOLATION|KNOWN-FINDING|govc:)" | cut -c1-400
git -C /repo checkout -- .
git -C /repo status --short
rm -rf /tmp/try-seed-out
