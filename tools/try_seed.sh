#!/bin/sh
# usage: try_seed.sh <dir-with-patch.diff> <PROP> [govc args]
# applies the patch to /repo, runs the property's check, and undoes the patch straight afterwards.
d=$1; p=$2; shift 2
git -C /repo apply "$d/patch.diff" || exit 2
/verif/bin/govc check "$p" --verif /tmp/try-seed-out "$@" | grep -E "^(VIOLATION|KNOWN-FINDING|govc:)" | cut -c1-400
git -C /repo checkout -- .
git -C /repo status --short
rm -rf /tmp/try-seed-out
