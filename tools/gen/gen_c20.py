import re,sys
# (pkg, name, params, results, documented composition body)
J = [
 ("JsonToMap","jsonVal []byte","map[string]interface{}, error","m, err := NewMapJson(jsonVal); return map[string]interface{}(m), err"),
 ("MapToJson","m map[string]interface{}, safeEncoding ...bool","[]byte, error","return Map(m).Json(safeEncoding...)"),
 ("JsonToXml","jsonVal []byte","[]byte, error","m, err := NewMapJson(jsonVal); if err != nil { return nil, err }; return m.Xml()"),
 ("JsonToXmlWriter","jsonVal []byte, xmlWriter io.Writer","error","m, err := NewMapJson(jsonVal); if err != nil { return err }; return m.XmlWriter(xmlWriter)"),
 ("JsonReaderToXml","jsonReader io.Reader","[]byte, []byte, error","m, jraw, err := NewMapJsonReaderRaw(jsonReader); if err != nil { return jraw, nil, err }; x, xerr := m.Xml(); return jraw, x, xerr"),
 ("JsonReaderToXmlWriter","jsonReader io.Reader, xmlWriter io.Writer","error","m, err := NewMapJsonReader(jsonReader); if err != nil { return err }; return m.XmlWriter(xmlWriter)"),
 ("JsonPathsForKey","jsonVal []byte, key string","[]string, error","m, err := NewMapJson(jsonVal); if err != nil { return nil, err }; return m.PathsForKey(key), nil"),
 ("JsonPathForKeyShortest","jsonVal []byte, key string","string, error",'m, err := NewMapJson(jsonVal); if err != nil { return "", err }; return m.PathForKeyShortest(key), nil'),
 ("JsonValuesForKey","jsonVal []byte, key string, subkeys ...string","[]interface{}, error","m, err := NewMapJson(jsonVal); if err != nil { return nil, err }; return m.ValuesForKey(key, subkeys...)"),
 ("JsonValuesForKeyPath","jsonVal []byte, path string, subkeys ...string","[]interface{}, error","m, err := NewMapJson(jsonVal); if err != nil { return nil, err }; return m.ValuesForPath(path, subkeys...)"),
 ("JsonUpdateValsForPath","jsonVal []byte, newKeyValue interface{}, path string, subkeys ...string","[]byte, error","m, err := NewMapJson(jsonVal); if err != nil { return nil, err }; _, err = m.UpdateValuesForPath(newKeyValue, path, subkeys...); if err != nil { return nil, err }; return m.Json()"),
 ("JsonNewJson","jsonVal []byte, keypairs ...string","[]byte, error","m, err := NewMapJson(jsonVal); if err != nil { return nil, err }; n, err := m.NewMap(keypairs...); if err != nil { return nil, err }; return n.Json()"),
 ("JsonNewXml","jsonVal []byte, keypairs ...string","[]byte, error","m, err := NewMapJson(jsonVal); if err != nil { return nil, err }; n, err := m.NewMap(keypairs...); if err != nil { return nil, err }; return n.Xml()"),
 ("JsonLeafNodes","jsonVal []byte","[]LeafNode, error","m, err := NewMapJson(jsonVal); if err != nil { return nil, err }; return m.LeafNodes(), nil"),
 ("JsonLeafValues","jsonVal []byte","[]interface{}, error","m, err := NewMapJson(jsonVal); if err != nil { return nil, err }; return m.LeafValues(), nil"),
 ("JsonLeafPath","jsonVal []byte","[]string, error","m, err := NewMapJson(jsonVal); if err != nil { return nil, err }; return m.LeafPaths(), nil"),
]
X = [
 ("XmlToMap","xmlVal []byte","map[string]interface{}, error","m, err := NewMapXml(xmlVal); if err != nil { return nil, err }; return map[string]interface{}(m), nil"),
 ("MapToXml","m map[string]interface{}","[]byte, error","return Map(m).Xml()"),
 ("XmlToJson","xmlVal []byte, safeEncoding ...bool","[]byte, error","m, err := NewMapXml(xmlVal); if err != nil { return nil, err }; return m.Json(safeEncoding...)"),
 ("XmlToJsonWriter","xmlVal []byte, jsonWriter io.Writer, safeEncoding ...bool","[]byte, error","m, err := NewMapXml(xmlVal); if err != nil { return nil, err }; return m.JsonWriterRaw(jsonWriter, safeEncoding...)"),
 ("XmlReaderToJson","xmlReader io.Reader, safeEncoding ...bool","[]byte, []byte, error","m, xraw, err := NewMapXmlReaderRaw(xmlReader); if err != nil { return xraw, nil, err }; j, jerr := m.Json(safeEncoding...); return xraw, j, jerr"),
 ("XmlReaderToJsonWriter","xmlReader io.Reader, jsonWriter io.Writer, safeEncoding ...bool","[]byte, []byte, error","m, xraw, err := NewMapXmlReaderRaw(xmlReader); if err != nil { return xraw, nil, err }; jraw, jerr := m.JsonWriterRaw(jsonWriter, safeEncoding...); return xraw, jraw, jerr"),
 ("XmlPathsForTag","xmlVal []byte, tag string","[]string, error","m, err := NewMapXml(xmlVal); if err != nil { return nil, err }; return m.PathsForKey(tag), nil"),
 ("XmlPathForTagShortest","xmlVal []byte, tag string","string, error",'m, err := NewMapXml(xmlVal); if err != nil { return "", err }; return m.PathForKeyShortest(tag), nil'),
 ("XmlValuesForTag","xmlVal []byte, tag string, attrs ...string","[]interface{}, error","m, err := NewMapXml(xmlVal); if err != nil { return nil, err }; return m.ValuesForKey(tag, attrs...)"),
 ("XmlValuesForPath","xmlVal []byte, path string, attrs ...string","[]interface{}, error","m, err := NewMapXml(xmlVal); if err != nil { return nil, err }; return m.ValuesForPath(path, attrs...)"),
 ("XmlUpdateValsForPath","xmlVal []byte, newTagValue interface{}, path string, subkeys ...string","[]byte, error","m, err := NewMapXml(xmlVal); if err != nil { return nil, err }; _, err = m.UpdateValuesForPath(newTagValue, path, subkeys...); if err != nil { return nil, err }; return m.Xml()"),
 ("XmlNewXml","xmlVal []byte, tagpairs ...string","[]byte, error","m, err := NewMapXml(xmlVal); if err != nil { return nil, err }; n, err := m.NewMap(tagpairs...); if err != nil { return nil, err }; return n.Xml()"),
 ("XmlNewJson","xmlVal []byte, tagpairs ...string","[]byte, error","m, err := NewMapXml(xmlVal); if err != nil { return nil, err }; n, err := m.NewMap(tagpairs...); if err != nil { return nil, err }; return n.Json()"),
 ("XmlLeafNodes","xmlVal []byte","[]LeafNode, error","m, err := NewMapXml(xmlVal); if err != nil { return nil, err }; return m.LeafNodes(), nil"),
 ("XmlLeafValues","xmlVal []byte","[]interface{}, error","m, err := NewMapXml(xmlVal); if err != nil { return nil, err }; return m.LeafValues(), nil"),
 ("XmlLeafPath","xmlVal []byte","[]string, error","m, err := NewMapXml(xmlVal); if err != nil { return nil, err }; return m.LeafPaths(), nil"),
]
def pnames(params):
    out=[]
    for p in params.split(','):
        p=p.strip()
        n,t=(p.split(' ',1)+[''])[:2]
        out.append(n+('...' if t.startswith('...') else ''))
    return ', '.join(out)
INLINE = {'ByteDocToMap'}
RC = "r := len(recast) == 1 && recast[0]; "
GA = "a := len(getAttrs) == 1 && getAttrs[0]; "
W = [
 ("DocToJson","doc string, recast ...bool","string, error",RC+'m, err := mxj.NewMapXml([]byte(doc), r); if m == nil || err != nil { return "", err }; b, berr := m.Json(); if berr != nil { return "", berr }; return string(b), nil'),
 ("DocToJsonIndent","doc string, recast ...bool","string, error",RC+'m, err := mxj.NewMapXml([]byte(doc), r); if m == nil || err != nil { return "", err }; b, berr := m.JsonIndent("", "  "); if berr != nil { return "", berr }; return string(b), nil'),
 ("DocToMap","doc string, recast ...bool","map[string]interface{}, error",RC+"m, err := mxj.NewMapXml([]byte(doc), r); return map[string]interface{}(m), err"),
 ("ByteDocToJson","doc []byte, recast ...bool","string, error",RC+'m, err := mxj.NewMapXml(doc, r); if m == nil || err != nil { return "", err }; b, berr := m.Json(); if berr != nil { return "", berr }; return string(b), nil'),
 ("ByteDocToMap","doc []byte, recast ...bool","map[string]interface{}, error",RC+"m, err := mxj.NewMapXml(doc, r); return map[string]interface{}(m), err"),
 ("ToMap","rdr io.Reader, recast ...bool","map[string]interface{}, error",RC+"m, err := mxj.NewMapXmlReader(rdr, r); return map[string]interface{}(m), err"),
 ("ValuesForTag","doc, tag string","[]interface{}, error","m, err := mxj.NewMapXml([]byte(doc)); if err != nil { return nil, err }; return ValuesForKey(m, tag), nil"),
 ("PathsForTag","doc string, key string","[]string, error","m, err := mxj.NewMapXml([]byte(doc)); if err != nil { return nil, err }; return PathsForKey(m, key), nil"),
 ("PathForTagShortest","doc string, key string","string, error",'m, err := mxj.NewMapXml([]byte(doc)); if err != nil { return "", err }; return PathForKeyShortest(m, key), nil'),
 ("BytePathsForTag","doc []byte, key string","[]string, error","m, err := mxj.NewMapXml(doc); if err != nil { return nil, err }; return PathsForKey(m, key), nil"),
 ("BytePathForTagShortest","doc []byte, key string","string, error",'m, err := mxj.NewMapXml(doc, false); if err != nil { return "", err }; return PathForKeyShortest(m, key), nil'),
 ("ValuesFromTagPath","doc, path string, getAttrs ...bool","[]interface{}, error",GA+"m, err := mxj.NewMapXml([]byte(doc)); if err != nil { return nil, err }; return ValuesFromKeyPath(m, path, a), nil"),
 ("ValuesAtTagPath","doc, path string, getAttrs ...bool","[]interface{}, error",GA+"m, err := mxj.NewMapXml([]byte(doc)); if err != nil { return nil, err }; return ValuesAtKeyPath(m, path, a), nil"),
 ("ReaderValuesFromTagPath","rdr io.Reader, path string, getAttrs ...bool","[]interface{}, error",GA+"m, err := mxj.NewMapXmlReader(rdr); if err != nil { return nil, err }; return ValuesFromKeyPath(m, path, a), nil"),
 ("ReaderValuesForTag","rdr io.Reader, tag string","[]interface{}, error","m, err := mxj.NewMapXmlReader(rdr); if err != nil { return nil, err }; return ValuesForKey(m, tag), nil"),
]
def gen(pkg, table, path, imp='. "github.com/clbanning/mxj/v2"', extra_spec='', extra_con='', extra_imp=''):
    spec=[f'''//go:build verif
// +build verif

// Ghost specifications for the govc verifier: what each wrapper is documented to return, written as the
// composition of core mxj functions (see /verif/DESIGN.md, C20). Compiled only with -tags verif.

package {pkg}

import (
	{imp}
	"io"
	"reflect"{extra_imp}
)

var _ io.Reader

// verifSame: two values are the same (ghost intrinsic: equality of their representations in the proofs).
func verifSame(a, b interface{{}}) bool {{ return reflect.DeepEqual(a, b) }}
''']
    con=[f'''//go:build verif
// +build verif

// Contracts for the govc verifier (comment-only file, see /verif/DESIGN.md, C20): every wrapper returns exactly what
// the documented composition of core functions (verif_spec.go) returns.

package {pkg}
''']
    for name,params,results,body in table:
        rts=[r.strip() for r in results.split(',')]
        spec.append(f"func spec{name}({params}) ({results}) {{ {body} }}\n")
        olds=[];ens=[]
        for k,rt in enumerate(rts):
            rn = "result" if k==0 else f"result{k}"
            vars_=', '.join(('r' if i==k else '_') for i in range(len(rts)))
            spec.append(f"func spec{name}_{k}({params}) {rt} {{ {vars_} := spec{name}({pnames(params)}); return r }}\n")
            olds.append(f"//@   old want{k} = spec{name}_{k}({pnames(params)})")
            ens.append(f"//@   ensures verifSame({rn}, want{k})")
        con.append(f"//@ func {name}\n//@   property C20\n"+("//@   inline\n" if name in INLINE else "")+"\n".join(olds)+"\n"+"\n".join(ens)+"\n//@   modifies all\n")
    spec.append(extra_spec); con.append(extra_con)
    open(path+'/verif_spec.go','w').write('\n'.join(spec))
    open(path+'/verif_contracts.go','w').write('\n'.join(con))
import os
HERE=os.path.dirname(os.path.abspath(__file__))
gen('j2x',J,'/repo/j2x'); gen('x2j',X,'/repo/x2j')
gen('x2j',W,'/repo/x2j-wrapper','"github.com/clbanning/mxj/v2"',open(HERE+'/x2jw_spec.go.txt').read(),open(HERE+'/x2jw_contracts.txt').read(),'\n\t"strings"')
