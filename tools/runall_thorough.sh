#!/bin/sh
# runs every claimed property's thorough command (from MANIFEST.json) and prints one summary line each
cd /verif
python3 - <<'PY'
import json,subprocess,time
m=json.load(open('/verif/MANIFEST.json'))
for c in m['checks']:
    t=time.time()
    r=subprocess.run(c['thorough_cmd'],shell=True,capture_output=True,text=True,cwd='/verif')
    last=[l for l in r.stdout.splitlines() if l.startswith('govc:')]
    viol=[l for l in r.stdout.splitlines() if l.startswith('VIOLATION')]
    ev=json.load(open('/verif/evidence/%s.json'%c['property_id']))['coverage'].get('cross_checked')
    print(c['property_id'],'exit',r.returncode,'%.0fs'%(time.time()-t),last[-1] if last else r.stdout[-200:],ev,flush=True)
    for v in viol[:6]: print('   ',v[:260],flush=True)
PY
