#!/usr/bin/env python3
# Regenerates /verif/MANIFEST.json from the table below (claimed properties) + properties.jsonl.
import json, os
V = '/verif'
props = [json.loads(l)['id'] for l in open(f'{V}/properties.jsonl')]
claimed = json.load(open(f'{V}/tools/claims.json'))
hooks = [l.strip() for l in open(f'{V}/tools/hook_commits.txt')] if os.path.exists(f'{V}/tools/hook_commits.txt') else []
checks = []
for pid in props:
    c = claimed.get(pid)
    if not c or not c.get('claim'):
        continue
    checks.append({
        "property_id": pid,
        "quick_cmd": f"bin/govc check {pid} --tier quick" + (f" --timeout {c['timeout']}" if c.get('timeout') else ""),
        "thorough_cmd": f"tools/thorough.sh {pid}" + (f" --timeout {max(c['timeout'], 60)}" if c.get('timeout') else ""),
        "evidence_file": f"evidence/{pid}.json",
        "replay_cmd_template": "bin/govc replay {path}",
        "engine": "govc",
        "level_claimed": {"category": "proof", "text": c['text'], "design_ref": c.get('design_ref', 'DESIGN.md §12')},
        "level_note": c['note'],
        "technique": c.get('technique', "contract-based deductive verification: weakest-precondition style VC generation over go/ssa of the real functions against //@ contracts, discharged by z3/cvc5"),
    })
na = [{"property_id": p, "reason": claimed.get(p, {}).get('na_reason', 'machinery for this property not yet built in this round; not claimed')} for p in props if not claimed.get(p, {}).get('claim')]
m = {
 "version": 1,
 "setup_cmd": "cd /verif/govc && GOFLAGS=-mod=mod GOPROXY=off GOSUMDB=off GOTOOLCHAIN=local go build -o ../bin/govc .",
 "hooks": {"guard": "verif", "enable": "-tags verif (comment-only contract file verif_contracts.go and ghost spec file verif_spec.go per package; loaded by govc through go/packages with the tag on)",
           "baseline_off_cmd": "cd /repo && GOFLAGS=-mod=mod GOPROXY=off GOSUMDB=off go test -json -vet=off -count=1 -timeout 25m ./...",
           "source_commits": hooks, "add_only": True},
 "engines": [{"name": "govc", "path": "govc/", "serves_properties": [c['property_id'] for c in checks],
              "kind_free_text": "own deductive verifier for the Go subset mxj uses: go/packages+go/ssa (NaiveForm) of /repo's working tree -> symbolic execution with state merging, loops cut at invariants, modular calls by contract -> SMT-LIB obligations -> portfolio z3 5.1.0 / cvc5 1.0 / z3 4.8.12"}],
 "checks": checks,
 "not_applicable": na,
 "notes": "See DESIGN.md. Contracts live in /repo/verif_contracts.go (+ sub-packages) as //@ comments; ghost spec functions in /repo/verif_spec.go; both behind build tag verif.",
}
json.dump(m, open(f'{V}/MANIFEST.json', 'w'), indent=1)
print("checks:", [c['property_id'] for c in checks])
