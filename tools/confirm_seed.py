#!/usr/bin/env python3
"""Confirms a sub-agent's seeded change in a fresh scratch worktree and files it under /verif/seeded/<name>/.
usage: confirm_seed.py <worktree-of-agent> <name> <property> [pkgdir-relative, default .]"""
import sys, os, subprocess, tempfile, shutil, json, re
src, name, prop = sys.argv[1], sys.argv[2], sys.argv[3]
pkg = sys.argv[4] if len(sys.argv) > 4 else '.'
env = dict(os.environ, GOFLAGS='-mod=mod', GOPROXY='off', GOSUMDB='off')
def sh(cmd, cwd=None):
    r = subprocess.run(cmd, shell=True, capture_output=True, text=True, cwd=cwd, env=env)
    return r.returncode, r.stdout + r.stderr
out = src + '/.seedout'
for f in ('patch.diff', 'demo_test.go'):
    if not os.path.exists(f'{out}/{f}'):
        print('missing', f); sys.exit(2)
wt = tempfile.mkdtemp(prefix='seedconfirm-'); os.rmdir(wt)
rc, o = sh(f'git -C /repo worktree add --detach {wt} HEAD')
assert rc == 0, o
log = {}
try:
    rc, o = sh(f'git apply {out}/patch.diff', cwd=wt); assert rc == 0, 'patch does not apply: ' + o
    rc, o = sh('go build ./ ./j2x ./x2j ./x2j-wrapper && go test -vet=off -count=1 . ./j2x ./x2j-wrapper', cwd=wt)
    log['suite_with_change'] = 'pass' if rc == 0 else 'FAIL'
    suite_ok = rc == 0
    shutil.copy(f'{out}/demo_test.go', f'{wt}/{pkg}/zz_seed_demo_test.go')
    m = re.findall(r'^func (Test\w+)\(', open(f'{out}/demo_test.go').read(), re.M)
    run = '|'.join(m)
    rc, o1 = sh(f"go test -vet=off -count=1 -run '^({run})$' ./{pkg}", cwd=wt)
    log['demo_with_change'] = 'fail' if rc != 0 else 'PASS(unexpected)'
    demo_fails = rc != 0
    rc, o = sh(f'git apply -R {out}/patch.diff', cwd=wt); assert rc == 0, o
    rc, o2 = sh(f"go test -vet=off -count=1 -run '^({run})$' ./{pkg}", cwd=wt)
    log['demo_without_change'] = 'pass' if rc == 0 else 'FAIL(unexpected)'
    demo_passes = rc == 0
    ok = suite_ok and demo_fails and demo_passes
    print(json.dumps(log), 'CONFIRMED' if ok else 'NOT CONFIRMED')
    if not ok:
        print(o1[-1500:]); print(o2[-1500:]); sys.exit(1)
    dst = f'/verif/seeded/{name}'
    os.makedirs(dst, exist_ok=True)
    shutil.copy(f'{out}/patch.diff', dst + '/patch.diff')
    shutil.copy(f'{out}/demo_test.go', dst + '/demo_test.go.txt')
    if os.path.exists(f'{out}/notes.md'):
        shutil.copy(f'{out}/notes.md', dst + '/notes.md')
    meta = {'property': prop, 'package': pkg, 'origin': 'independent sub-agent given only the property text and a scratch worktree',
            'confirmed': log, 'ran': [f'git apply patch.diff; go test . ./j2x ./x2j-wrapper (pass); go test -run {run} (fails); git apply -R; go test -run {run} (passes)'],
            'needs': '(see notes.md)'}
    if os.path.exists(dst + '/meta.json'):
        old = json.load(open(dst + '/meta.json')); old.update({k: v for k, v in meta.items() if k not in ('needs',)}); meta = old
    json.dump(meta, open(dst + '/meta.json', 'w'), indent=1)
finally:
    sh(f'git -C /repo worktree remove --force {wt}'); shutil.rmtree(wt, ignore_errors=True)
