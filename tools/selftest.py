#!/usr/bin/env python3
"""Must-fail corpus runner.  For every directory under /verif/selftest and /verif/seeded holding patch.diff + meta.json:
apply the patch to a scratch git worktree of /repo (outside /repo and /verif), run the property's check against that tree,
and require a VIOLATION (naming meta.expect_obligation when given).  Also requires the same check to pass on the clean worktree
when --clean is given.  Scratch trees are removed afterwards."""
import json, os, subprocess, sys, tempfile, shutil, glob
V = '/verif'
def sh(cmd, **kw):
    return subprocess.run(cmd, shell=True, capture_output=True, text=True, **kw)
def main():
    only = [a for a in sys.argv[1:] if not a.startswith('-')]
    dirs = sorted(glob.glob(f'{V}/selftest/*/') + glob.glob(f'{V}/seeded/*/'))
    res = []
    clean = {}
    def clean_ok(p):
        # the property's check must pass on a clean worktree of /repo's HEAD (the same base the patches are applied to)
        if p not in clean:
            cw = tempfile.mkdtemp(prefix='govc-selftest-clean-'); os.rmdir(cw)
            sh(f'git -C /repo worktree add --detach {cw} HEAD')
            try:
                r = sh(f'{V}/bin/govc check {p} --timeout 60 --repo {cw} --verif {cw}/.verif-out', cwd=V)
                clean[p] = (r.returncode == 0)
            finally:
                sh(f'git -C /repo worktree remove --force {cw}'); shutil.rmtree(cw, ignore_errors=True)
        return clean[p]
    for d in dirs:
        name = os.path.basename(d.rstrip('/'))
        if only and not any(o in name for o in only):
            continue
        if not os.path.exists(d + 'patch.diff') or not os.path.exists(d + 'meta.json'):
            continue
        meta = json.load(open(d + 'meta.json'))
        props = meta['property'] if isinstance(meta['property'], list) else [meta['property']]
        wt = tempfile.mkdtemp(prefix='govc-selftest-')
        os.rmdir(wt)
        r = sh(f'git -C /repo worktree add --detach {wt} HEAD')
        if r.returncode != 0:
            print('worktree failed', r.stderr); sys.exit(2)
        try:
            r = sh(f'git -C {wt} apply {d}patch.diff')
            if r.returncode != 0:
                res.append((name, 'PATCH-DOES-NOT-APPLY', r.stderr.strip())); continue
            detected, out_all = False, ''
            if not all(clean_ok(p) for p in props):
                res.append((name, 'NO-CHECK', 'the check for ' + ','.join(props) + ' does not pass on the unchanged tree (not built / not clean)')); continue
            for p in props:
                r = sh(f'{V}/bin/govc check {p} --timeout 60 --repo {wt} --verif {wt}/.verif-out', cwd=V)
                out_all += r.stdout
                viol = [l for l in r.stdout.splitlines() if l.startswith('VIOLATION')]
                exp = meta.get('expect_obligation')
                if r.returncode == 1 and viol and (not exp or any(exp in l for l in viol)):
                    detected = True
            detail = '; '.join(l.split('obligation=')[1][:90] for l in out_all.splitlines() if l.startswith('VIOLATION'))[:300]
            res.append((name, 'DETECTED' if detected else 'MISSED', detail))
        finally:
            sh(f'git -C /repo worktree remove --force {wt}')
            shutil.rmtree(wt, ignore_errors=True)
    bad = 0
    for n, s, dt in res:
        print(f'{s:10s} {n}  {dt}')
        if s not in ('DETECTED',): bad += 1
    print(f'selftest: {len(res)-bad}/{len(res)} detected')
    sys.exit(1 if bad else 0)
main()
