#!/usr/bin/env python3
"""Syntactic mutation campaign: how many small, test-surviving edits of the functions under contract do the checks catch?

usage: mutate.py <property> <file> <func>[,<func>...] [--max N] [--jobs J] [--timeout S] [--pkg DIR]

For every mutant (one operator / constant swapped on one line of one of the named functions):
  1. it must compile and the package's existing tests must still pass (otherwise it is of no interest here),
  2. `govc check <property>` is run against it in a scratch worktree (outside /repo and /verif, removed afterwards).
Prints one line per test-surviving mutant: CAUGHT <obligation> | SURVIVED, and a summary. Survivors are either
equivalent mutants or gaps in the contracts - they have to be read."""
import sys, os, re, subprocess, tempfile, shutil, random, json
from concurrent.futures import ThreadPoolExecutor

V = '/verif'
ENV = dict(os.environ, GOFLAGS='-mod=mod', GOPROXY='off', GOSUMDB='off', GOTOOLCHAIN='local')

def sh(cmd, cwd=None, timeout=None):
    try:
        r = subprocess.run(cmd, shell=True, capture_output=True, text=True, cwd=cwd, env=ENV, timeout=timeout)
        return r.returncode, r.stdout + r.stderr
    except subprocess.TimeoutExpired:
        return 124, 'timeout'

SWAPS = [(' == ', ' != '), (' != ', ' == '), (' < ', ' <= '), (' <= ', ' < '), (' > ', ' >= '), (' >= ', ' > '),
         (' && ', ' || '), (' || ', ' && '), (' + 1', ' + 2'), (' - 1', ' - 2'), ('++', '--'), (' true', ' false'),
         (' false', ' true'), ('[1:]', '[2:]'), ('[:1]', '[:2]'), (' == 0', ' == 1'), (' > 0', ' > 1'), ('!ok', 'ok'),
         ('; ok {', '; !ok {'), ('continue', 'break'), ('[0]', '[1]')]

def func_ranges(src, names):
    lines = src.split('\n')
    out = []
    for i, l in enumerate(lines):
        m = re.match(r'func (\([^)]*\) )?(\w+)\(', l)
        if m and m.group(2) in names:
            depth, j = 0, i
            while j < len(lines):
                code = re.sub(r'"(\\.|[^"\\])*"|`[^`]*`|\'(\\.|[^\'\\])*\'', '', lines[j].split('//')[0])
                depth += code.count('{') - code.count('}')
                if depth == 0 and j > i:
                    break
                j += 1
            out.append((i, j))
    return out

def mutants(src, names):
    lines = src.split('\n')
    for (a, b) in func_ranges(src, names):
        for i in range(a + 1, b):
            l = lines[i]
            if l.strip().startswith('//'):
                continue
            code = l.split('//')[0]
            for old, new in SWAPS:
                pos = code.find(old)
                if pos >= 0:
                    m = lines[:]
                    m[i] = l[:pos] + new + l[pos + len(old):]
                    yield (i + 1, old.strip(), new.strip(), '\n'.join(m))

def run_one(args):
    prop, relfile, pkg, line, old, new, text, timeout = args
    wt = tempfile.mkdtemp(prefix='govc-mut-'); os.rmdir(wt)
    rc, o = sh(f'git -C /repo worktree add --detach {wt} HEAD')
    if rc != 0:
        return ('ERROR', line, old, new, o[-200:])
    try:
        open(os.path.join(wt, relfile), 'w').write(text)
        rc, o = sh(f'go build ./... 2>&1 | grep -v examples | head -5; go vet -vet=off ./{pkg} >/dev/null 2>&1; go test -vet=off -count=1 ./{pkg}', cwd=wt, timeout=300)
        if rc != 0 or 'FAIL' in o or 'cannot' in o or 'undefined' in o:
            return ('KILLED-BY-TESTS', line, old, new, '')
        rc, o = sh(f'{V}/bin/govc check {prop} --timeout {timeout} --repo {wt} --verif {wt}/.verif-out', cwd=V, timeout=3600)
        viol = [l for l in o.splitlines() if l.startswith('VIOLATION')]
        if viol:
            ob = viol[0].split('obligation=')[1][:110] if 'obligation=' in viol[0] else viol[0][:110]
            return ('CAUGHT', line, old, new, ob)
        if rc != 0:
            return ('CAUGHT', line, old, new, 'exit %d' % rc)
        return ('SURVIVED', line, old, new, '')
    finally:
        sh(f'git -C /repo worktree remove --force {wt}'); shutil.rmtree(wt, ignore_errors=True)

def main():
    a = sys.argv[1:]
    prop, relfile, names = a[0], a[1], set(a[2].split(','))
    opt = lambda k, d: (a[a.index(k) + 1] if k in a else d)
    mx, jobs, timeout, pkg = int(opt('--max', 40)), int(opt('--jobs', 4)), int(opt('--timeout', 20)), opt('--pkg', '.')
    src = open(os.path.join('/repo', relfile)).read()
    ms = list(mutants(src, names))
    random.seed(7)
    random.shuffle(ms)
    ms = ms[:mx]
    print(f'{len(ms)} mutants of {sorted(names)} in {relfile} against {prop}', flush=True)
    res = []
    with ThreadPoolExecutor(max_workers=jobs) as ex:
        for r in ex.map(run_one, [(prop, relfile, pkg, l, o, n, t, timeout) for (l, o, n, t) in ms]):
            print(f'{r[0]:16s} {relfile}:{r[1]}  {r[2]!r} -> {r[3]!r}  {r[4]}', flush=True)
            res.append(r)
    c = lambda k: sum(1 for r in res if r[0] == k)
    print(f'summary: {c("KILLED-BY-TESTS")} killed by the existing tests, {c("CAUGHT")} caught by the check, {c("SURVIVED")} survived, {c("ERROR")} errors')

main()
