#!/bin/sh
# thorough tier of one property:
#  1. the deductive check itself with the long per-obligation limit (this alone decides the exit code and prints
#     the VIOLATION / KNOWN-FINDING lines);
#  2. if it passed: the must-fail corpus of that property (canaries = reversed fix: commits, seeded = independent
#     property-breaking changes) is replayed in scratch worktrees of /repo's HEAD to show that the same check, on
#     the same engine, reports each of them; the tally goes into the evidence file (coverage.must_fail_corpus).
#     A corpus entry that is not reported is a defect of the machinery, not of mxj: it is recorded, never turned
#     into a VIOLATION.
p=$1; shift
cd /verif || exit 2
bin/govc check "$p" --tier thorough "$@"
rc=$?
if [ $rc -eq 0 ] && [ -z "$GOVC_NO_CORPUS" ] && [ -f evidence/$p.json ]; then
  python3 tools/corpus_for.py "$p" 1800 >/dev/null 2>&1 || true
fi
exit $rc
